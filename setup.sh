#!/bin/sh
# Builds the symbolic executor from files on disk only (offline).
set -e
cd "$(dirname "$0")"
export GOFLAGS=-mod=mod GOPROXY=off GOSUMDB=off GOTOOLCHAIN=local
export PATH=/opt/veriftools/go1.26.8/bin:$PATH
mkdir -p bin evidence replays .work
(cd engine && go build -o ../bin/vsym ./cmd/vsym)
echo "setup ok: $(ls -la bin/vsym)"

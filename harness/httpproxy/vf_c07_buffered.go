package httpproxy

import (
	"bufio"
	"io"

	"github.com/database64128/shadowsocks-go/netio"
)

// C07 — HTTP CONNECT client: once the handshake has completed the connection is a transparent
// byte stream, including data the far side sent first.
//
// http.ReadResponse itself is not executed (net/http is outside the encoder's reach); what is
// executed is everything the client does with the connection after the response head has been
// taken out of the bufio.Reader: the decision of ClientConnect to wrap the connection when the
// reader still holds bytes, and the real wrapper (readBufferedNetioConn: Read, WriteTo, the
// ReaderFrom variant) over the real bufio.Reader.  The harness puts the reader into the state
// ReadResponse leaves it in: `head` bytes of the inbound stream consumed through the reader, the
// transport having delivered them in fragments of symbolic size (so a symbolic number of later
// bytes already sits in the reader's buffer).

// vfConnWT is a transport that has its own io.WriterTo and io.ReaderFrom (as *net.TCPConn and
// *netio.PipeConn have).
type vfConnWT struct{ *vfConn }

func (c vfConnWT) WriteTo(w io.Writer) (int64, error) {
	n, err := w.Write(c.data[c.pos:])
	c.pos += n
	return int64(n), err
}

func (c vfConnWT) ReadFrom(r io.Reader) (int64, error) {
	b := make([]byte, 64)
	var total int64
	for i := 0; i < 4; i++ {
		n, err := r.Read(b)
		c.out = append(c.out, b[:n]...)
		total += int64(n)
		if err != nil {
			break
		}
	}
	return total, nil
}

type vfSink struct{ b []byte }

func (s *vfSink) Write(p []byte) (int, error) { s.b = append(s.b, p...); return len(p), nil }

//   mode  0: the application drains the connection with Read; 1: with io.WriterTo when offered (as
//            netio.BidirectionalCopy and io.Copy do)
//   inner 0: the transport has only Read/Write; 1: it has its own WriteTo/ReadFrom
func vfC07_HTTPBuffered() {
	mode := vfCase("mode")
	inner := vfCase("inner")
	total := vfInt("total")
	vfAssume(total >= 2 && total <= 40)
	head := vfInt("head")
	vfAssume(head >= 1 && head < total)
	data := vfBytes("stream", total)
	c := &vfConn{}
	c.data = data
	c.frags = 2
	var rw netio.Conn = c
	if inner == 1 {
		rw = vfConnWT{c}
	}
	br := bufio.NewReader(rw)
	hb := make([]byte, head)
	_, err := io.ReadFull(br, hb)
	vfAssert(err == nil, "the response head is available")

	// as ClientConnect does after a 2xx response
	pc := rw
	if br.Buffered() > 0 {
		pc = newReadBufferedNetioConn(rw, br)
		vfReach("buffered")
	}

	var got []byte
	wt, isWT := pc.(io.WriterTo)
	if mode == 1 && isWT {
		s := &vfSink{}
		n, err := wt.WriteTo(s)
		vfAssert(err == nil && int(n) == len(s.b), "WriteTo reports what it wrote")
		got = s.b
		vfReach("writeTo")
	} else {
		b := make([]byte, total)
		for i := 0; i < 6; i++ {
			n, err := pc.Read(b)
			got = append(got, b[:n]...)
			if err != nil {
				vfAssert(err == io.EOF, "the stream ends with EOF")
				break
			}
			vfAssert(i < 5, "unwinding bound of the read loop")
		}
	}
	vfAssert(len(got) == total-head, "nothing after the handshake is lost or duplicated, including data the far side sent first")
	w := vfInt("w")
	vfAssume(w >= 0 && w < len(got))
	vfAssert(got[w] == data[head+w], "the bytes after the handshake arrive unchanged and in order")

	// writes go to the transport untouched
	k, err := pc.Write([]byte{1, 2, 3})
	vfAssert(err == nil && k == 3 && len(c.out) == 3 && c.out[2] == 3, "writes reach the transport")
	if rf, ok := pc.(io.ReaderFrom); ok {
		src := &vfReader{data: []byte{9, 8, 7}}
		n, _ := rf.ReadFrom(src)
		vfAssert(n == 3 && len(c.out) == 6 && c.out[3] == 9 && c.out[5] == 7, "ReadFrom forwards to the transport")
	}
	vfReach("end")
}

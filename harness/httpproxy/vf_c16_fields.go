package httpproxy

import (
	"net/http"
)

// C16 (partial) — what a plain-HTTP request loses on its way through the proxy: hop-by-hop
// fields, every field nominated by Connection, and every proxy credential; everything else stays.
// The real removeConnectionSpecificFields runs on a header whose Connection value is symbolic.

var vfVocab = []string{
	"Connection", "Proxy-Connection", "Keep-Alive", "Te", "Transfer-Encoding",
	"Proxy-Authenticate", "Proxy-Authorization", "Proxy-Authentication-Info",
	"Upgrade", "Close", "Accept", "Cookie", "X-Trace",
}

var vfHopByHop = map[string]bool{
	"Connection": true, "Proxy-Connection": true, "Keep-Alive": true, "Te": true, "Transfer-Encoding": true,
	"Proxy-Authenticate": true, "Proxy-Authorization": true, "Proxy-Authentication-Info": true,
}

// vfMangle returns name with the case of its first four letters and of its last letter chosen
// symbolically (every further symbolic letter doubles the paths through CanonicalHeaderKey).
func vfMangle(tag, name string, letters int) []byte {
	b := []byte(name)
	flips := vfBytes(tag, len(b))
	for i := range b {
		c := b[i]
		if (i < letters || letters >= 4 && i == len(b)-1) && (c >= 'a' && c <= 'z' || c >= 'A' && c <= 'Z') && flips[i]&1 == 1 {
			b[i] = c ^ 0x20
		}
	}
	return b
}

// vfPad returns 0..2 symbolic blanks (space or tab).
func vfPad(tag string, max uint64) []byte {
	n := int(vfConcretize(uint64(vfU8(tag+"n")), 0, max))
	p := vfBytes(tag, n)
	for i := 0; i < n; i++ {
		vfAssume(p[i] == ' ' || p[i] == '\t')
	}
	return p
}

// vfOption builds one Connection option: a case-mangled vocabulary name (k = index) or, for
// k = len(vfVocab), an arbitrary 5-letter token that is none of the vocabulary names.
func vfOption(tag string, k int, maxPad uint64, letters int) []byte {
	var tok []byte
	if k < len(vfVocab) {
		tok = vfMangle(tag+"flip", vfVocab[k], letters)
	} else {
		tok = vfBytes(tag+"tok", 5)
		for i := 0; i < 5; i++ {
			vfAssume(tok[i] >= 'a' && tok[i] <= 'z')
		}
	}
	out := append(vfPad(tag+"l", maxPad), tok...)
	return append(out, vfPad(tag+"r", maxPad)...)
}

// vfC16_StripFields: cases opts (1 or 2 Connection options), k1, k2 (vocabulary index of each
// option, len(vocab) = an unknown token)
func vfC16_StripFields() {
	opts := vfCase("opts")
	k1, k2 := vfCase("k1"), vfCase("k2")
	h, tr := http.Header{}, http.Header{}
	vals := map[string]string{}
	for i, name := range vfVocab {
		v := string(vfBytes("val", 3)) + string(rune('a'+i))
		vals[name] = v
		if name != "Connection" {
			h[name] = []string{v}
		}
		tr[name] = []string{v}
	}
	maxPad, letters := uint64(2), 4
	if opts == 2 {
		maxPad, letters = 1, 1
	}
	cv := vfOption("o1", k1, maxPad, letters)
	if opts == 2 {
		cv = append(cv, ',')
		cv = append(cv, vfOption("o2", k2, maxPad, letters)...)
	}
	h["Connection"] = []string{string(cv)}

	removeConnectionSpecificFields(h, tr)

	nominated := func(name string) bool {
		if name == "Close" || name == "Upgrade" {
			return false
		}
		return k1 < len(vfVocab) && vfVocab[k1] == name || opts == 2 && k2 < len(vfVocab) && vfVocab[k2] == name
	}
	for _, name := range vfVocab {
		if name == "Upgrade" || name == "Close" {
			// "close" and "upgrade" are connection options, not field nominations; whether fields of
			// these names survive this function is not part of the property (Upgrade is removed
			// from requests by the caller)
			continue
		}
		got, ok := h[name]
		if vfHopByHop[name] || nominated(name) {
			vfAssert(!ok, "hop-by-hop fields, proxy credentials and fields nominated by Connection are removed")
		} else {
			vfAssert(ok && len(got) == 1 && got[0] == vals[name], "every other field is kept unchanged")
		}
		tgot, tok := tr[name]
		if nominated(name) {
			vfAssert(!tok, "a nominated trailer field is removed")
		} else {
			vfAssert(tok && len(tgot) == 1 && tgot[0] == vals[name], "other trailer fields are kept")
		}
	}
	vfReach("end")
}

// vfC16_BasicAuth: the credential matcher.  A request is authenticated exactly when one of its
// Proxy-Authorization values is "Basic " (any letter case) followed by a configured token; the
// user is the token's owner.
func vfC16_BasicAuth() {
	users := map[string]string{"YWxpY2U6c2VjcmV0": "alice", "Ym9iOmh1bnRlcjI=": "bob"}
	n := vfInt("len")
	vfAssume(n >= 0 && n <= 24)
	v := vfBytes("value", n)
	h := http.Header{}
	if vfBool("present") {
		h["Proxy-Authorization"] = []string{string(v)}
	}
	user, ok := serverHandleBasicAuth(h, users)
	// reference
	want := ""
	if _, has := h["Proxy-Authorization"]; has && n > 6 && v[5] == ' ' &&
		v[0]|0x20 == 'b' && v[1]|0x20 == 'a' && v[2]|0x20 == 's' && v[3]|0x20 == 'i' && v[4]|0x20 == 'c' {
		want = users[string(v[6:])]
	}
	vfAssert(ok == (want != ""), "authenticated exactly when a configured token follows the Basic scheme")
	vfAssert(user == want, "the user is the owner of the presented token")
	vfReach("end")
}

package httpproxy

import (
	"bufio"
	"bytes"
	"net/http"
	"net/url"

	"github.com/database64128/shadowsocks-go/netio"
	"go.uber.org/zap"
)

// C16 (partial, control flow): which requests the plain-HTTP path forwards at all.  net/http's
// message parsing and serialisation are replaced by objects in the symbolic run (the harness
// queues *http.Request values, http.ReadRequest hands them out, Request.Write records them);
// natively the same requests are serialised, parsed by the real http.ReadRequest and what the
// proxy writes is parsed back.

func vfRequest(method, host string, hdr http.Header) *http.Request {
	if hdr == nil {
		hdr = http.Header{}
	}
	return &http.Request{Method: method, URL: &url.URL{Scheme: "http", Host: host, Path: "/"}, Host: host,
		Proto: "HTTP/1.1", ProtoMajor: 1, ProtoMinor: 1, Header: hdr}
}

var vfVerbs = []string{"GET", "POST", "CONNECT", "DELETE"}
var vfOrigins = []string{"a.example", "b.example", "a.example:80", "A.example"}

// vfC16_ForwardGate: the first request is for host a.example; two more requests follow on the
// same proxy connection with symbolically chosen methods and hosts.  A request is written to the
// origin only while every request so far was a non-CONNECT request for exactly the first host;
// the first request that is not ends the connection and is not written, nor is anything after it.
// Every written request has lost Connection, Keep-Alive, proxy credentials and Upgrade.
func vfC16_ForwardGate() {
	first := vfRequest("GET", "a.example", http.Header{"Proxy-Authorization": {"Basic eA=="}, "Upgrade": {"websocket"}, "Accept": {"*/*"}})
	var later [2]*http.Request
	ok := [2]bool{}
	for i := range later {
		m := vfVerbs[vfConcretize(uint64(vfU8("method")), 0, 3)]
		h := vfOrigins[vfConcretize(uint64(vfU8("host")), 0, 3)]
		later[i] = vfRequest(m, h, http.Header{"Keep-Alive": {"timeout=5"}, "Cookie": {"k=v"}})
		ok[i] = m != "CONNECT" && h == "a.example"
		vfHTTPQueue(later[i])
	}
	reqCh := make(chan *http.Request, 16)
	respDone := make(chan struct{})
	var out bytes.Buffer
	plbw := bufio.NewWriter(&out)
	err := serverForwardRequests(first, reqCh, respDone, plbw, bufio.NewReader(vfHTTPInput()), zap.NewNop())
	vfAssert(err == nil, "the request loop ends without an error")
	want := 1
	if ok[0] {
		want = 2
		if ok[1] {
			want = 3
		}
	}
	vfHTTPOutput(&out)
	vfAssert(vfHTTPWrittenCount() == want, "requests are forwarded only while they are for the first host and not CONNECT; the first other request ends the connection")
	for i := 0; i < want; i++ {
		w := vfHTTPWritten(i)
		vfAssert(w.Host == "a.example" && w.Method != "CONNECT", "nothing is sent to the wrong origin")
		_, a := w.Header["Proxy-Authorization"]
		_, b := w.Header["Upgrade"]
		_, c := w.Header["Keep-Alive"]
		_, d := w.Header["Connection"]
		vfAssert(!a && !b && !c && !d, "forwarded requests carry no proxy credential, Upgrade or hop-by-hop field")
		if i == 0 {
			vfAssert(len(w.Header["Accept"]) == 1 && w.Header["Accept"][0] == "*/*", "end-to-end fields are kept")
		} else {
			vfAssert(len(w.Header["Cookie"]) == 1 && w.Header["Cookie"][0] == "k=v", "end-to-end fields are kept")
		}
	}
	vfReach("end")
}

// vfC16_AuthGate: with authentication enabled, up to three requests arrive, each with or without
// a valid Proxy-Authorization and with or without "Connection: close".  ServerHandle hands out a
// pending connection only for a request that carried valid credentials; every request before it
// got a 407 and nothing else; a close indication on an unauthenticated request ends the
// connection.
func vfC16_AuthGate() {
	users := map[string]string{"YWxpY2U6c2VjcmV0": "alice"}
	n := int(vfConcretize(uint64(vfU8("requests")), 1, 3))
	firstValid, firstClose := -1, -1
	for i := 0; i < n; i++ {
		hdr := http.Header{}
		valid, cl := vfBool("valid"), vfBool("close")
		if valid {
			hdr["Proxy-Authorization"] = []string{"basic YWxpY2U6c2VjcmV0"}
		} else if vfBool("wrongToken") {
			hdr["Proxy-Authorization"] = []string{"Basic Ym9iOmh1bnRlcjI="}
		}
		r := vfRequest("GET", "a.example", hdr)
		r.Close = cl
		if cl {
			r.Header["Connection"] = []string{"close"}
		}
		vfHTTPQueue(r)
		if valid && firstValid < 0 {
			firstValid = i
		}
		if cl && !valid && firstClose < 0 && firstValid < 0 {
			firstClose = i
		}
	}
	rw := &vfConn{}
	rw.data = vfHTTPWire()
	pc, _, user, err := ServerHandle(rw, zap.NewNop(), users)
	// number of 407 responses sent, and whether anything else was sent
	n407, other := 0, false
	for rest := rw.out; len(rest) > 0; {
		if !bytes.HasPrefix(rest, []byte("HTTP/1.1 407 ")) {
			other = true
			break
		}
		end := bytes.Index(rest, []byte("\r\n\r\n"))
		if end < 0 {
			other = true
			break
		}
		n407++
		rest = rest[end+4:]
	}
	granted := firstValid >= 0 && (firstClose < 0 || firstValid < firstClose)
	if granted {
		vfAssert(err == nil && pc != nil && user == "alice", "a request with valid credentials is honoured for its user")
		vfAssert(n407 == firstValid && !other, "every request before it was answered with 407 and nothing else")
	} else {
		vfAssert(err != nil && pc == nil, "nothing is honoured before valid credentials are presented")
		k := n
		if firstClose >= 0 {
			k = firstClose + 1
		}
		vfAssert(n407 == k && !other, "each unauthenticated request gets a 407; a close indication ends the connection")
	}
	vfReach("end")
}

// vfRespReader stands for the byte stream from the origin in the symbolic run: it has a byte to
// peek at exactly while a response is still queued (http.ReadResponse consumes it).
type vfRespReader struct{}

func (vfRespReader) Read(p []byte) (int, error) {
	if vfHTTPRespPending() == 0 || len(p) == 0 {
		return 0, vfEOF
	}
	p[0] = 'H'
	return 1, nil
}

func vfRespInput() vfIOReader {
	if vfSymbolic() {
		return vfRespReader{}
	}
	return vfHTTPRespNative()
}

func vfResponse(status int, id string) *http.Response {
	return &http.Response{StatusCode: status, Proto: "HTTP/1.1", ProtoMajor: 1, ProtoMinor: 1,
		Header: http.Header{"X-Id": {id}, "Keep-Alive": {"timeout=5"}}, Body: http.NoBody}
}

var vfInterim = []int{100, 102, 103}
var vfFinal = []int{200, 204, 404}

// vfC16_ResponseGate: two pipelined requests; the origin answers each with 0..2 interim (1xx)
// responses and one final response, statuses chosen symbolically.  Every response comes back to
// the client, in the origin's order, and each final response closes exactly one request: after
// the second final response nothing is left over and the loop ends cleanly when the origin is
// done.  Hop-by-hop fields are stripped from responses too.
func vfC16_ResponseGate() {
	reqs := []*http.Request{vfRequest("GET", "a.example", nil), vfRequest("GET", "a.example", nil)}
	reqCh := make(chan *http.Request, 16)
	var ids []string
	for i, r := range reqs {
		reqCh <- r
		k := int(vfConcretize(uint64(vfU8("interims")), 0, 2))
		for j := 0; j < k; j++ {
			id := string(rune('a'+i)) + string(rune('1'+j))
			vfHTTPQueueResponse(vfResponse(vfInterim[vfConcretize(uint64(vfU8("interim")), 0, 2)], id))
			ids = append(ids, id)
		}
		id := string(rune('A' + i))
		vfHTTPQueueResponse(vfResponse(vfFinal[vfConcretize(uint64(vfU8("final")), 0, 2)], id))
		ids = append(ids, id)
	}
	close(reqCh)
	var out bytes.Buffer
	rwbw := bufio.NewWriter(&out)
	pl, _ := netio.NewPipe()
	rw := &vfConn{}
	err := serverForwardResponses(reqCh, bufio.NewReader(vfRespInput()), rw, rwbw, newPipeClosingWriter(rwbw, pl), zap.NewNop())
	vfAssert(err == nil, "the response loop ends cleanly when the origin has answered every request")
	vfAssert(len(rw.out) == 0, "no error response is injected")
	vfHTTPRespOutput(&out)
	vfAssert(vfHTTPRespWrittenCount() == len(ids), "every response, interim ones included, comes back to the client")
	for i, id := range ids {
		w := vfHTTPRespWritten(i)
		vfAssert(len(w.Header["X-Id"]) == 1 && w.Header["X-Id"][0] == id, "responses come back in the origin's order")
		_, ka := w.Header["Keep-Alive"]
		vfAssert(!ka, "hop-by-hop fields are stripped from responses")
	}
	vfReach("end")
}

package portset

// C10 — a port set parsed from a range string answers membership identically as bit set, as range
// list and as single port, for every one of the 65535 ports (the port is symbolic).

var vfC10Sets = []string{
	"1", "65535", "80", "63", "64", "65", "127,128", "1-2", "1-65535", "2-65534",
	"63-64", "64-65", "1-63", "1-64", "1-65", "64-127", "64-128", "65-128", "128-191,192-255",
	"80,443", "443,80", "1-10,5-20", "1-10,11-20", "1-10,12-20", "100-200,150", "150,100-200",
	"65534-65535", "65472-65535", "65471-65535", "1,65535", "1-1000,2000-3000,65000-65535",
	"1,3,5,7,9,11,13,15,17,19,21,23,25,27,29,31,33",
	"1,3,5,7,9,11,13,15,17,19,21,23,25,27,29,31",
	"10-20,30-40,50-60,70-80,90-100,110-120,130-140,150-160,170-180,190-200,210-220,230-240,250-260,270-280,290-300,310-320,330-340,350-360",
	"22,80,443,8080-8090,1024-2047,4096-8191,32768-65535",
	"255-256,511-513,1023-1025", "4095-4097,8191-8193,16383-16385,32767-32769",
	"20-21,21-22,22-23", "5-6,4-7,3-8,2-9,1-10", "1000-1001,999-1002,1003",
}

// vfC10ref parses s with a deliberately simple parser (reference semantics: a port is in the
// set iff it lies in one of the comma separated items "p" or "from-to").
func vfC10ref(s string) (ranges [][2]uint32) {
	var cur, from uint32
	dash := false
	flush := func() {
		if dash {
			ranges = append(ranges, [2]uint32{from, cur})
		} else {
			ranges = append(ranges, [2]uint32{cur, cur})
		}
		cur, from, dash = 0, 0, false
	}
	for i := 0; i < len(s); i++ {
		switch c := s[i]; {
		case c == ',':
			flush()
		case c == '-':
			from, cur, dash = cur, 0, true
		default:
			cur = cur*10 + uint32(c-'0')
		}
	}
	flush()
	return
}

func vfC10_Ports() {
	str := vfC10Sets[vfCase("set")]
	var s PortSet
	if err := s.Parse(str); err != nil {
		vfAssert(false, "valid port set string rejected")
		return
	}
	rs := s.RangeSet()
	p := vfU16("port")
	vfAssume(p != 0)
	want := false
	var total uint
	for _, r := range vfC10ref(str) {
		want = vfOr(want, vfAnd(uint32(p) >= r[0], uint32(p) <= r[1]))
	}
	in := s.Contains(p)
	vfAssert(in == want, "bit set membership equals the range string's meaning")
	vfAssert(rs.Contains(p) == want, "range list membership equals the range string's meaning")
	lin := false
	for _, r := range rs.ranges {
		lin = vfOr(lin, r.Contains(p))
		total += uint(r.To) - uint(r.From) + 1
	}
	vfAssert(lin == want, "linear scan of the range list equals the range string's meaning")
	vfAssert(s.RangeCount() == uint(len(rs.ranges)), "RangeCount equals the number of ranges listed")
	vfAssert(s.Count() == total, "Count equals the total size of the ranges")
	for i := range rs.ranges {
		vfAssert(rs.ranges[i].From <= rs.ranges[i].To && rs.ranges[i].From != 0, "range well formed")
		if i > 0 {
			vfAssert(uint(rs.ranges[i-1].To)+1 < uint(rs.ranges[i].From), "ranges sorted, disjoint and maximal")
		}
	}
	if s.Count() == 1 {
		vfAssert(in == (p == s.First()), "single-port form: membership is equality with First")
	}
	vfAssert(s.First() == uint16(vfC10min(str)), "First is the smallest member")
	vfReach("end")
}

func vfC10min(str string) uint32 {
	m := uint32(1 << 20)
	for _, r := range vfC10ref(str) {
		if r[0] < m {
			m = r[0]
		}
	}
	return m
}

// vfC10_Rejects: malformed strings are refused (concrete execution of the real parser).
func vfC10_Rejects() {
	for _, bad := range []string{"0", "0-5", "65536", "5-4", "5-5", "1-65536", "a", "1,,2", "-", "1-", "-1", ",", "1, 2", "+1", "1-2-3"} {
		var s PortSet
		vfAssert(s.Parse(bad) != nil, "malformed port set string accepted")
	}
	var e PortSet
	vfAssert(e.Parse("") == nil && e.Count() == 0 && e.RangeCount() == 0, "empty string is the empty set")
	vfReach("end")
}

// vfC10_AddRange: addRange on ARBITRARY previous block contents, symbolic from<to (block numbers
// forked over 4 consecutive blocks, bit positions symbolic): every bit afterwards is old-bit OR
// in-range (witness bit w).
func vfC10_AddRange() {
	var s PortSet
	base := uint64(vfCase("baseBlock"))
	for i := base; i < base+4 && i < uint64(len(s.blocks)); i++ {
		s.blocks[i] = uint(vfU64("blk"))
	}
	fb := vfConcretize(vfU64("fromBlock"), base, base+3)
	tb := vfConcretize(vfU64("toBlock"), base, base+4)
	wb := vfConcretize(vfU64("wBlock"), base, base+3)
	from := uint(fb*64 + uint64(vfU8("fromBit")&63))
	to := uint(tb*64 + uint64(vfU8("toBit")&63))
	w := uint(wb*64 + uint64(vfU8("wBit")&63))
	vfAssume(from < to && to <= 65536 && to <= uint(base+4)*64 && from != 0 && w != 0 && w < 65536)
	before := s.Contains(uint16(w))
	s.addRange(from, to)
	after := s.Contains(uint16(w))
	vfAssert(after == vfOr(before, vfAnd(w >= from, w < to)), "addRange sets exactly the bits of [from,to)")
	vfReach("end")
}

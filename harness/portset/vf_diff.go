package portset

// Differential driver (translator validation): port-set parsing and queries.
var vfDiffStrings = []string{"1", "80,443", "1-1023", "1,3,5,7,9,11,13,15,17,19,21,23,25,27,29,31,33,35", "100-200,150-300,65535", "65535", "1-65535", "0", "5-4", "abc", "1-", "22,22,22", "1000-2000,3000-4000,8080", ""}

func vfDiff_Ports() {
	var s PortSet
	str := vfDiffStrings[int(vfU8("str"))%len(vfDiffStrings)]
	err := s.Parse(str)
	vfObserve("err", vfDiffB(err != nil))
	if err != nil {
		return
	}
	if vfU8("extra")%2 == 0 {
		a, b := vfU16("from"), vfU16("to")
		if a >= 1 && a <= b {
			s.AddRange(a, b)
		}
	}
	vfObserve("count", uint64(s.Count()))
	vfObserve("ranges", uint64(s.RangeCount()))
	if s.Count() > 0 {
		vfObserve("first", uint64(s.First()))
	}
	rs := s.RangeSet()
	for i := 0; i < 12; i++ {
		p := vfU16("probe")
		if p == 0 {
			p = 1
		}
		vfObserve("bit", vfDiffB(s.Contains(p)))
		vfObserve("range", vfDiffB(rs.Contains(p)))
	}
}

func vfDiffB(b bool) uint64 {
	if b {
		return 1
	}
	return 0
}

package service

import (
	"context"
	"net"
	"net/netip"
	"time"

	"github.com/database64128/shadowsocks-go/conn"
	"github.com/database64128/shadowsocks-go/direct"
	"github.com/database64128/shadowsocks-go/dns"
	"github.com/database64128/shadowsocks-go/netio"
	"github.com/database64128/shadowsocks-go/router"
	"github.com/database64128/shadowsocks-go/stats"
	"github.com/database64128/shadowsocks-go/zerocopy"
	"go.uber.org/zap"
)

// C12 — UDP NAT sessions end cleanly.  The real UDPNATRelay (generic, non-batched path: receive
// loop, per-session uplink and downlink goroutines, NAT table, Stop) runs on a modelled loopback
// network whose sockets, deadlines and clock belong to the harness.

const vfNatTimeout = 2 * time.Second

func vfLoopback(port uint16) netip.AddrPort {
	return netip.AddrPortFrom(netip.AddrFrom4([4]byte{127, 0, 0, 1}), port)
}

type vfNATWorld struct {
	socks0 int // sockets / goroutines of the started, idle relay
	gos0   int
	relay  *UDPNATRelay
	col    stats.Collector
	target int // peer socket that plays the tunnel target
	port   uint16
}

func vfNewNATWorld(natTimeout time.Duration) *vfNATWorld {
	vfClock(1000, 0)
	w := &vfNATWorld{target: vfNetSocket()}
	targetAddr := conn.AddrFromIPPort(vfLoopback(vfNetPort(w.target)))
	server := direct.NewDirectUDPNATServer(targetAddr, true)
	client := direct.NewDirectUDPClient("out", "ip4", 1500, conn.ListenConfig{})
	rcfg := router.Config{DefaultUDPClientName: "out"}
	r, err := rcfg.Router(zap.NewNop(), nil, map[string]dns.SimpleResolver{}, map[string]netio.StreamClient{}, map[string]zerocopy.UDPClient{"out": client}, map[string]int{"s": 0})
	vfAssert(err == nil, "router")
	w.col = stats.NewServerCollector()
	recvSize := zerocopy.MaxPacketSizeForAddr(1500, netip.IPv4Unspecified())
	lnc := udpRelayServerConn{network: "udp4", address: "127.0.0.1:0", batchMode: "no", sendChannelCapacity: 64, natTimeout: natTimeout}
	w.relay = NewUDPNATRelay("s", 0, 1500, 0, recvSize, recvSize, []udpRelayServerConn{lnc}, server, w.col, r, zap.NewNop())
	vfAssert(w.relay.Start(context.Background()) == nil, "relay starts")
	w.port = uint16(w.relay.listeners[0].serverConn.LocalAddr().(*net.UDPAddr).Port)
	vfQuiesce()
	w.socks0, w.gos0 = vfNetOpen(), vfLiveGoroutines()
	return w
}

func (w *vfNATWorld) tableLen() int {
	w.relay.mu.Lock()
	defer w.relay.mu.Unlock()
	return len(w.relay.table)
}

// vfC12_Lifecycle: a client sends, the target answers, the session idles past the NAT timeout and
// is torn down (table entry gone, socket closed, goroutines ended); a later datagram from the same
// client starts a new working session; Stop returns with everything released.
//   cases: preempt (schedule bound while the relay's goroutines run)
func vfC12_Lifecycle() {
	w := vfNewNATWorld(vfNatTimeout)
	vfSchedule(vfCase("preempt"))
	client := vfNetSocket()
	payload := vfBytes("payload", 8)
	buf := make([]byte, 64)

	// 1. first datagram creates a session; the target sees it coming from the session's socket
	vfNetSend(client, w.port, payload)
	n, nat1, ok := vfNetRecv(w.target, buf)
	vfAssert(ok && n == 8, "the datagram reaches the tunnel target")
	x := vfInt("x")
	vfAssume(x >= 0 && x < 8)
	vfAssert(buf[x] == payload[x], "payload intact")
	vfQuiesce()
	vfAssert(vfNetOpen() == w.socks0+1 && w.tableLen() == 1, "one session, one NAT socket beside the listener")

	// 2. the reply returns to the client
	reply := vfBytes("reply", 5)
	vfNetSend(w.target, nat1, reply)
	n, from, ok := vfNetRecv(client, buf)
	vfAssert(ok && n == 5 && from == w.port, "the reply returns to the client through the relay")
	vfAssert(buf[x%5] == reply[x%5], "reply intact")

	// 3. idle past the NAT timeout: the session is torn down and its socket released
	vfAdvance(vfNatTimeout + time.Millisecond)
	vfAssert(w.tableLen() == 0, "an idle session is removed from the table")
	vfAssert(vfNetOpen() == w.socks0, "an idle session's socket is released")
	vfAssert(vfLiveGoroutines() == w.gos0, "an idle session's goroutines have ended (only what the idle relay runs remains)")

	// 4. a later datagram from the same client transparently starts a new working session
	vfNetSend(client, w.port, payload)
	n, nat2, ok := vfNetRecv(w.target, buf)
	vfAssert(ok && n == 8 && buf[x] == payload[x], "a later datagram starts a new working session")
	vfNetSend(w.target, nat2, reply)
	n, _, ok = vfNetRecv(client, buf)
	vfAssert(ok && n == 5, "the new session relays replies")

	// 5. stop: returns without waiting for the NAT timeout, everything released
	vfAssert(w.relay.Stop() == nil, "stop")
	vfQuiesce()
	vfAssert(vfNetOpen() == 0, "stop releases every socket")
	vfAssert(vfLiveGoroutines() == 0, "stop leaves no goroutine behind")
	vfAssert(w.tableLen() == 0, "stop empties the session table")
	vfReach("end")
}

// vfC12_StopRace: Stop is called while datagrams from two clients are arriving and sessions are
// being set up (every interleaving within the preemption bound).  Stop returns (no deadlock: the
// harness never advances the clock, so it cannot depend on the NAT timeout), nothing panics,
// and no socket or goroutine is left behind.
//   cases: preempt, packets
func vfC12_StopRace() {
	w := vfNewNATWorld(time.Hour) // never reached: a Stop that waits for it hangs
	c1, c2 := vfNetSocket(), vfNetSocket()
	packets := vfCase("packets")
	vfSchedule(vfCase("preempt"))
	vfGo("net", func() {
		for i := 0; i < packets; i++ {
			c := c1
			if i%2 == 1 {
				c = c2
			}
			vfNetSend(c, w.port, []byte{byte(i), 1, 2, 3})
		}
	})
	vfGo("stop", func() { vfAssert(w.relay.Stop() == nil, "stop") })
	vfJoin()
	vfQuiesce()
	vfAssert(vfLiveGoroutines() == 0, "stop leaves no goroutine behind")
	vfAssert(vfNetOpen() == 0, "stop releases every socket")
	vfAssert(w.tableLen() == 0, "stop empties the session table")
	vfReach("end")
}

// vfC12_TimeoutRace: a session times out while another datagram from the same client arrives and
// while Stop is called.
//   cases: preempt
func vfC12_TimeoutRace() {
	w := vfNewNATWorld(vfNatTimeout)
	client := vfNetSocket()
	buf := make([]byte, 64)
	vfNetSend(client, w.port, []byte{9, 9, 9, 9})
	_, _, ok := vfNetRecv(w.target, buf)
	vfAssert(ok, "first datagram relayed")
	vfSchedule(vfCase("preempt"))
	vfGo("clock", func() { vfAdvance(vfNatTimeout + time.Millisecond) })
	vfGo("net", func() { vfNetSend(client, w.port, []byte{7, 7, 7, 7}) })
	if vfCase("stop") == 1 {
		vfGo("stop", func() { vfAssert(w.relay.Stop() == nil, "stop") })
	}
	vfJoin()
	vfQuiesce()
	if vfCase("stop") == 1 {
		vfAssert(vfLiveGoroutines() == 0, "stop leaves no goroutine behind")
		vfAssert(vfNetOpen() == 0, "stop releases every socket")
	} else {
		// quiesce: after another idle period everything but the listener is gone
		vfAdvance(vfNatTimeout + time.Millisecond)
		vfAssert(w.tableLen() == 0 && vfNetOpen() == w.socks0 && vfLiveGoroutines() == w.gos0, "after the idle period only the listener remains")
		vfAssert(w.relay.Stop() == nil, "stop")
		vfQuiesce()
		vfAssert(vfNetOpen() == 0 && vfLiveGoroutines() == 0, "stop releases everything")
	}
	vfReach("end")
}

// vfC12_EvictRace: a datagram from the client arrives at the very moment its session's NAT timeout
// fires (the clock jumps past the deadline and the datagram is sent before anybody has reacted;
// every interleaving of the eviction with the receive loop within the preemption bound).  Nothing
// panics, the datagram is either relayed by the old session or starts a new one or is dropped,
// and after another idle period only the listener remains.
//   cases: preempt
func vfC12_EvictRace() {
	w := vfNewNATWorld(vfNatTimeout)
	client := vfNetSocket()
	buf := make([]byte, 64)
	vfNetSend(client, w.port, []byte{9, 9, 9, 9})
	_, _, ok := vfNetRecv(w.target, buf)
	vfAssert(ok, "first datagram relayed")
	vfSchedule(vfCase("preempt"))
	vfClockAdd(vfNatTimeout + time.Millisecond)
	vfNetSend(client, w.port, []byte{7, 7, 7, 7})
	vfQuiesce()
	vfAdvance(vfNatTimeout + time.Millisecond)
	vfAssert(w.tableLen() == 0 && vfNetOpen() == w.socks0 && vfLiveGoroutines() == w.gos0, "after the idle period only the listener remains")
	vfAssert(w.relay.Stop() == nil, "stop")
	vfQuiesce()
	vfAssert(vfNetOpen() == 0 && vfLiveGoroutines() == 0, "stop releases everything")
	vfReach("end")
}

// vfC11_NATSessions: the NAT relay with the SOCKS5 UDP server protocol.  Two clients address two
// different targets; a third sender emits a datagram that does not parse.  Each datagram leaves
// towards the target it names, from its own session's socket; each reply returns to the client
// that owns the session, with the target as its source; the unparsable datagram creates no
// session, socket or goroutine.
//   cases: preempt
func vfC11_NATSessions() {
	vfClock(1000, 0)
	t1, t2 := vfNetSocket(), vfNetSocket()
	c1, c2, junk := vfNetSocket(), vfNetSocket(), vfNetSocket()
	client := direct.NewDirectUDPClient("out", "ip4", 1500, conn.ListenConfig{})
	rcfg := router.Config{DefaultUDPClientName: "out"}
	r, err := rcfg.Router(zap.NewNop(), nil, map[string]dns.SimpleResolver{}, map[string]netio.StreamClient{}, map[string]zerocopy.UDPClient{"out": client}, map[string]int{"s": 0})
	vfAssert(err == nil, "router")
	server := direct.Socks5UDPNATServer{}
	recvSize := zerocopy.MaxPacketSizeForAddr(1500, netip.IPv4Unspecified())
	head := zerocopy.UDPRelayHeadroom(zerocopy.Headroom{}, server.Info().UnpackerHeadroom)
	lnc := udpRelayServerConn{network: "udp4", address: "127.0.0.1:0", batchMode: "no", sendChannelCapacity: 64, natTimeout: time.Hour}
	relay := NewUDPNATRelay("s", 0, 1500, head.Front, recvSize, head.Front+recvSize+head.Rear, []udpRelayServerConn{lnc}, server, stats.NewServerCollector(), r, zap.NewNop())
	vfAssert(relay.Start(context.Background()) == nil, "relay starts")
	port := uint16(relay.listeners[0].serverConn.LocalAddr().(*net.UDPAddr).Port)
	vfQuiesce()
	socks0 := vfNetOpen()
	vfSchedule(vfCase("preempt"))

	// SOCKS5 UDP request: RSV RSV FRAG ATYP=1 addr port payload
	pkt := func(targetPort uint16, payload []byte) []byte {
		return append([]byte{0, 0, 0, 1, 127, 0, 0, 1, byte(targetPort >> 8), byte(targetPort)}, payload...)
	}
	p1, p2 := vfBytes("p1", 5), vfBytes("p2", 5)
	x := vfInt("x")
	vfAssume(x >= 0 && x < 5)
	vfNetSend(junk, port, []byte{0, 0, 1, 9, 9}) // fragmented / unknown address type: refused
	vfNetSend(c1, port, pkt(vfNetPort(t1), p1))
	vfNetSend(c2, port, pkt(vfNetPort(t2), p2))
	buf := make([]byte, 64)
	n, nat1, ok := vfNetRecv(t1, buf)
	vfAssert(ok && n == 5 && buf[x] == p1[x], "client 1's datagram reaches the target it names")
	n, nat2, ok := vfNetRecv(t2, buf)
	vfAssert(ok && n == 5 && buf[x] == p2[x], "client 2's datagram reaches the target it names")
	vfAssert(nat1 != nat2, "each session has its own socket")
	_, _, more := vfNetRecv(t1, buf)
	vfAssert(!more, "nothing else reaches target 1")
	vfQuiesce()
	relay.mu.Lock()
	sessions := len(relay.table)
	relay.mu.Unlock()
	vfAssert(sessions == 2 && vfNetOpen() == socks0+2, "the unparsable datagram created no session and no socket")

	// replies
	r1, r2 := vfBytes("r1", 4), vfBytes("r2", 4)
	vfNetSend(t2, nat2, r2)
	vfNetSend(t1, nat1, r1)
	n, from, ok := vfNetRecv(c1, buf)
	vfAssert(ok && from == port && n == 10+4, "client 1 gets a reply")
	vfAssert(buf[3] == 1 && uint16(buf[8])<<8|uint16(buf[9]) == vfNetPort(t1), "with target 1 as its source")
	vfAssert(buf[10+x%4] == r1[x%4], "and target 1's payload")
	n, _, ok = vfNetRecv(c2, buf)
	vfAssert(ok && n == 10+4 && uint16(buf[8])<<8|uint16(buf[9]) == vfNetPort(t2) && buf[10+x%4] == r2[x%4], "client 2 gets target 2's reply")
	_, _, more = vfNetRecv(c1, buf)
	vfAssert(!more, "no reply is delivered to the other client")
	_, _, more = vfNetRecv(junk, buf)
	vfAssert(!more, "the sender of the unparsable datagram gets nothing")
	vfAssert(relay.Stop() == nil, "stop")
	vfQuiesce()
	vfAssert(vfNetOpen() == 0 && vfLiveGoroutines() == 0, "stop releases everything")
	vfReach("end")
}

package service

import (
	"context"
	"net"
	"net/netip"
	"time"

	"github.com/database64128/shadowsocks-go/conn"
	"github.com/database64128/shadowsocks-go/direct"
	"github.com/database64128/shadowsocks-go/dns"
	"github.com/database64128/shadowsocks-go/netio"
	"github.com/database64128/shadowsocks-go/router"
	"github.com/database64128/shadowsocks-go/ss2022"
	"github.com/database64128/shadowsocks-go/stats"
	"github.com/database64128/shadowsocks-go/zerocopy"
	"go.uber.org/zap"
)

// C11 / C12 on the session-ID relay (Shadowsocks 2022 server protocol): sessions are keyed by the
// client's session ID and follow the client's latest address; they end cleanly.  The real
// UDPSessionRelay (generic path) runs on the modelled loopback network with the real ss2022 UDP
// server; the harness's proxy client is the real ss2022 UDP client (packer / unpacker).

type vfSessWorld struct {
	socks0 int
	gos0   int
	relay  *UDPSessionRelay
	target int
	port   uint16
	// the proxy client's codec
	packer   zerocopy.ClientPacker
	unpacker zerocopy.ClientUnpacker
	head     zerocopy.Headroom
	targetAP netip.AddrPort
}

func vfNewSessWorld(natTimeout time.Duration) *vfSessWorld {
	vfClock(1000, 0)
	w := &vfSessWorld{target: vfNetSocket()}
	w.targetAP = vfLoopback(vfNetPort(w.target))
	psk := vfBytes("psk", 16)
	ucfg, err := ss2022.NewUserCipherConfig(psk, true)
	vfAssert(err == nil, "server cipher config")
	server := ss2022.NewUDPServer(0, ucfg, ss2022.ServerIdentityCipherConfig{}, ss2022.NoPadding)
	out := direct.NewDirectUDPClient("out", "ip4", 1500, conn.ListenConfig{})
	rcfg := router.Config{DefaultUDPClientName: "out"}
	r, err := rcfg.Router(zap.NewNop(), nil, map[string]dns.SimpleResolver{}, map[string]netio.StreamClient{}, map[string]zerocopy.UDPClient{"out": out}, map[string]int{"s": 0})
	vfAssert(err == nil, "router")
	recvSize := zerocopy.MaxPacketSizeForAddr(1500, netip.IPv4Unspecified())
	lnc := udpRelayServerConn{network: "udp4", address: "127.0.0.1:0", batchMode: "no", sendChannelCapacity: 64, natTimeout: natTimeout}
	w.relay = NewUDPSessionRelay("s", 0, 1500, 0, recvSize, recvSize, []udpRelayServerConn{lnc}, server, stats.NewServerCollector(), r, zap.NewNop())
	vfAssert(w.relay.Start(context.Background()) == nil, "relay starts")
	w.port = uint16(w.relay.listeners[0].serverConn.LocalAddr().(*net.UDPAddr).Port)
	vfQuiesce()
	w.socks0, w.gos0 = vfNetOpen(), vfLiveGoroutines()

	ccfg, err := ss2022.NewClientCipherConfig(psk, nil, true)
	vfAssert(err == nil, "client cipher config")
	pc := ss2022.NewUDPClient("c", "udp", conn.AddrFromIPPort(vfLoopback(w.port)), 1500, conn.ListenConfig{}, 0, ccfg, ss2022.NoPadding)
	_, sess, err := pc.NewSession(context.Background())
	vfAssert(err == nil, "proxy client session")
	w.packer, w.unpacker = sess.Packer, sess.Unpacker
	w.head = w.packer.ClientPackerInfo().Headroom
	return w
}

// send packs payload for the tunnel target and sends it from the given peer socket.
func (w *vfSessWorld) send(peer int, payload []byte) {
	b := make([]byte, w.head.Front+len(payload)+w.head.Rear)
	copy(b[w.head.Front:], payload)
	_, s, n, err := w.packer.PackInPlace(context.Background(), b, conn.AddrFromIPPort(w.targetAP), w.head.Front, len(payload))
	vfAssert(err == nil, "proxy client packs")
	vfNetSend(peer, w.port, b[s:s+n])
}

// recv takes one relayed reply at the given peer socket and unpacks it.
func (w *vfSessWorld) recv(peer int) (payload []byte, src netip.AddrPort, ok bool) {
	buf := make([]byte, 256)
	n, from, got := vfNetRecv(peer, buf)
	if !got {
		return nil, netip.AddrPort{}, false
	}
	vfAssert(from == w.port, "replies come from the relay's listener")
	src, ps, pl, err := w.unpacker.UnpackInPlace(buf, vfLoopback(w.port), 0, n)
	vfAssert(err == nil, "the proxy client can read the reply")
	return buf[ps : ps+pl], src, true
}

func (w *vfSessWorld) tableLen() int {
	w.relay.mu.Lock()
	defer w.relay.mu.Unlock()
	return len(w.relay.table)
}

// vfC11_SessionRoaming: the same client session sends from one address, then from another; the
// relay keeps ONE session (one NAT socket) and replies go to the latest address, with the true
// source attached; afterwards the session idles out and Stop releases everything.
func vfC11_SessionRoaming() {
	w := vfNewSessWorld(vfNatTimeout)
	vfSchedule(vfCase("preempt"))
	c1, c2 := vfNetSocket(), vfNetSocket()
	p1, p2 := vfBytes("p1", 6), vfBytes("p2", 6)
	buf := make([]byte, 64)
	x := vfInt("x")
	vfAssume(x >= 0 && x < 6)

	w.send(c1, p1)
	n, nat1, ok := vfNetRecv(w.target, buf)
	vfAssert(ok && n == 6 && buf[x] == p1[x], "the first datagram reaches the target with its payload")
	reply := vfBytes("reply", 4)
	vfNetSend(w.target, nat1, reply)
	got, src, ok := w.recv(c1)
	vfAssert(ok && len(got) == 4 && got[x%4] == reply[x%4], "the reply returns to the client's address")
	vfAssert(src.Port() == w.targetAP.Port() && src.Addr().Unmap() == w.targetAP.Addr(), "the reply carries its true source")

	// the client moves to another address, same session
	w.send(c2, p2)
	n, nat2, ok := vfNetRecv(w.target, buf)
	vfAssert(ok && n == 6 && buf[x] == p2[x], "the datagram from the new address reaches the target")
	vfAssert(nat2 == nat1, "the session keeps its NAT socket when the client's address changes")
	vfQuiesce()
	vfAssert(w.tableLen() == 1 && vfNetOpen() == w.socks0+1, "still one session")
	vfNetSend(w.target, nat2, reply)
	got, _, ok = w.recv(c2)
	vfAssert(ok && len(got) == 4 && got[x%4] == reply[x%4], "the reply follows the client's latest address")
	_, _, stale := vfNetRecv(c1, buf)
	vfAssert(!stale, "nothing is sent to the client's old address")

	// idle out, then stop
	vfAdvance(vfNatTimeout + time.Millisecond)
	vfAssert(w.tableLen() == 0 && vfNetOpen() == w.socks0 && vfLiveGoroutines() == w.gos0, "the idle session is torn down")
	vfAssert(w.relay.Stop() == nil, "stop")
	vfQuiesce()
	vfAssert(vfNetOpen() == 0 && vfLiveGoroutines() == 0, "stop releases everything")
	vfReach("end")
}

// vfC12_SessionStopRace: Stop while a datagram of a new session is arriving (NAT timeout never
// reached: a Stop that needs it shows as all goroutines blocked).
func vfC12_SessionStopRace() {
	w := vfNewSessWorld(time.Hour)
	c1 := vfNetSocket()
	vfSchedule(vfCase("preempt"))
	vfGo("net", func() { w.send(c1, []byte{1, 2, 3, 4}) })
	vfGo("stop", func() { vfAssert(w.relay.Stop() == nil, "stop") })
	vfJoin()
	vfQuiesce()
	vfAssert(vfLiveGoroutines() == 0, "stop leaves no goroutine behind")
	vfAssert(vfNetOpen() == 0, "stop releases every socket")
	vfAssert(w.tableLen() == 0, "stop empties the session table")
	vfReach("end")
}

package service

import (
	"context"
	"errors"
	"net/netip"

	"github.com/database64128/shadowsocks-go/conn"
	"github.com/database64128/shadowsocks-go/direct"
	"github.com/database64128/shadowsocks-go/ss2022"
	"github.com/database64128/shadowsocks-go/zerocopy"
)

// C05 — relay re-packing in place: a packet unpacked from the server's protocol is re-packed for
// the outgoing client's protocol in the SAME buffer, whose geometry is computed with the
// service's own formulas (zerocopy.UDPRelayHeadroom, MaxPacketSizeForAddr).  No byte outside the
// buffer is touched (no slice-bounds panic, the AEAD seal stays in place), the re-packed packet
// lies inside the buffer and respects the client's packet size limit.

var vfUpstream = netip.AddrPortFrom(netip.AddrFrom4([4]byte{192, 0, 2, 1}), 8388)

// vfClientSide returns packer, unpacker and max packet size of a client of protocol p
// (0 ss2022, 1 socks5, 2 none, 3 direct) towards vfUpstream.
func vfClientSide(p, mtu int, psk []byte) (zerocopy.ClientPacker, zerocopy.ClientUnpacker, int) {
	mx := zerocopy.MaxPacketSizeForAddr(mtu, vfUpstream.Addr())
	switch p {
	case 0:
		ccfg, err := ss2022.NewClientCipherConfig(psk, nil, true)
		vfAssert(err == nil, "cipher config")
		c := ss2022.NewUDPClient("c", "udp", conn.AddrFromIPPort(vfUpstream), mtu, conn.ListenConfig{}, 0, ccfg, ss2022.NoPadding)
		_, sess, err := c.NewSession(context.Background())
		vfAssert(err == nil, "session")
		return sess.Packer, sess.Unpacker, sess.MaxPacketSize
	case 1:
		return direct.NewSocks5PacketClientPacker(vfUpstream, mx), direct.NewSocks5PacketClientUnpacker(vfUpstream), mx
	case 2:
		return direct.NewShadowsocksNonePacketClientPacker(vfUpstream, mx), direct.NewShadowsocksNonePacketClientUnpacker(vfUpstream), mx
	}
	return direct.NewDirectPacketClientPacker("ip", mtu), direct.DirectPacketClientUnpacker{}, mx
}

// vfServerUnpacker returns the server-side unpacker of protocol p for the received packet pkt.
func vfServerUnpacker(p int, psk []byte, pkt []byte, tunnel conn.Addr) zerocopy.ServerUnpacker {
	switch p {
	case 0:
		ucfg, err := ss2022.NewUserCipherConfig(psk, true)
		vfAssert(err == nil, "cipher config")
		s := ss2022.NewUDPServer(0, ucfg, ss2022.ServerIdentityCipherConfig{}, ss2022.NoPadding)
		csid, err := s.SessionInfo(pkt)
		vfAssert(err == nil, "session info")
		u, _, err := s.NewUnpacker(pkt, csid)
		vfAssert(err == nil, "unpacker")
		return u
	case 1:
		u, _ := direct.Socks5UDPNATServer{}.NewUnpacker()
		return u
	case 2:
		u, _ := direct.ShadowsocksNoneUDPNATServer{}.NewUnpacker()
		return u
	}
	u, _ := direct.NewDirectUDPNATServer(tunnel, false).NewUnpacker()
	return u
}

func vfServerUnpackerHeadroom(p int) zerocopy.Headroom {
	switch p {
	case 0:
		return ss2022.ShadowPacketClientMessageHeadroom(0)
	case 1:
		return direct.Socks5UDPNATServer{}.Info().UnpackerHeadroom
	case 2:
		return direct.ShadowsocksNoneUDPNATServer{}.Info().UnpackerHeadroom
	}
	return zerocopy.Headroom{}
}

// vfC05_RelayUplink: cases server (0..3), client (0..3)
func vfC05_RelayUplink() {
	sp, cp := vfCase("server"), vfCase("client")
	smtu, cmtu := vfInt("serverMTU"), vfInt("clientMTU")
	vfAssume(smtu >= 1280 && smtu <= 9000 && cmtu >= 1280 && cmtu <= 9000)
	pskS, pskC := vfBytes("pskServer", 16), vfBytes("pskClient", 16)
	target := conn.AddrFromIPAndPort(netip.AddrFrom4([4]byte{203, 0, 113, 5}), vfU16("targetPort"))

	// 1. the packet as the proxy client sends it to our server (protocol sp)
	peerPacker, _, peerMax := vfClientSide(sp, smtu, pskS)
	ph := peerPacker.ClientPackerInfo().Headroom
	plen := vfInt("payloadLen")
	vfAssume(plen >= 0 && plen <= 9000)
	payload := vfBytes("payload", plen)
	pb := make([]byte, ph.Front+plen+ph.Rear)
	copy(pb[ph.Front:], payload)
	_, pstart, pn, err := peerPacker.PackInPlace(context.Background(), pb, target, ph.Front, plen)
	if err != nil {
		vfReach("peertoobig")
		return
	}
	vfAssert(pn <= peerMax, "peer packet within its limit")

	// 2. the relay's receive buffer, exactly as ServerConfig.UDPRelay / the relay loops lay it out
	cpacker, _, cmax := vfClientSide(cp, cmtu, pskC)
	maxClientPackerHeadroom := cpacker.ClientPackerInfo().Headroom
	// other clients of the service may need more headroom
	extraF, extraR := vfInt("extraFront"), vfInt("extraRear")
	vfAssume(extraF >= 0 && extraF <= 1200 && extraR >= 0 && extraR <= 32)
	maxClientPackerHeadroom = zerocopy.MaxHeadroom(maxClientPackerHeadroom, zerocopy.Headroom{Front: extraF, Rear: extraR})
	headroom := zerocopy.UDPRelayHeadroom(maxClientPackerHeadroom, vfServerUnpackerHeadroom(sp))
	recvSize := zerocopy.MaxPacketSizeForAddr(smtu, netip.IPv4Unspecified())
	vfAssume(pn <= recvSize) // larger datagrams are truncated by the socket read and never reach the unpacker whole
	buf := make([]byte, headroom.Front+recvSize+headroom.Rear)
	copy(buf[headroom.Front:], pb[pstart:pstart+pn])

	// 3. unpack in place (server protocol), 4. re-pack in place (client protocol)
	su := vfServerUnpacker(sp, pskS, buf[headroom.Front:headroom.Front+pn], target)
	src := netip.AddrPortFrom(netip.AddrFrom4([4]byte{198, 51, 100, 7}), 40000)
	ta, ps, pl, err := su.UnpackInPlace(buf, src, headroom.Front, pn)
	vfAssert(err == nil, "genuine packet unpacks")
	vfAssert(pl == plen && ta.Port() == target.Port() && ta.IsIP(), "payload length and target survive the unpack")
	_, s2, l2, err := cpacker.PackInPlace(context.Background(), buf, ta, ps, pl)
	if err != nil {
		vfAssert(errors.Is(err, zerocopy.ErrPayloadTooBig), "the only re-packing error is payload-too-big")
		vfReach("toobig")
		return
	}
	vfAssert(s2 >= 0 && l2 >= pl && s2+l2 <= len(buf), "the re-packed packet lies inside the relay's packet buffer")
	vfAssert(l2 <= cmax, "the re-packed packet respects the outgoing client's packet size limit")
	w := vfInt("w")
	vfAssume(w >= 0 && w < plen)
	if cp != 0 {
		// plain protocols: the payload is still at the end of the packet, unchanged
		vfAssert(buf[s2+l2-plen+w] == payload[w], "payload bytes unchanged by unpack and re-pack")
	}
	vfReach("end")
}

// vfC05_RelayDownlink: the return path.  A small datagram first travels up (proxy client ->
// our server sp -> outgoing client cp -> upstream), which creates the packers of both sessions;
// then the upstream answers with a reply of symbolic size from the target, and the relay unpacks
// it (client protocol cp) and re-packs it (server protocol sp) IN PLACE in a buffer laid out
// exactly as relayNatConnToServerConnGeneric lays it out.  The reply unpacks, its source and
// payload survive, the re-packed packet lies inside the buffer and respects the size limit of
// the path back to the proxy client.
//   cases: server (0..3), client (0..3)
func vfC05_RelayDownlink() {
	sp, cp := vfCase("server"), vfCase("client")
	smtu, cmtu := vfInt("serverMTU"), vfInt("clientMTU")
	vfAssume(smtu >= 1280 && smtu <= 9000 && cmtu >= 1280 && cmtu <= 9000)
	pskS, pskC := vfBytes("pskServer", 16), vfBytes("pskClient", 16)
	targetAP := netip.AddrPortFrom(netip.AddrFrom4([4]byte{203, 0, 113, 5}), vfU16("targetPort"))
	if vfBool("target6") {
		targetAP = netip.AddrPortFrom(netip.AddrFrom16([16]byte{0x20, 0x01, 0x0d, 0xb8, 15: 5}), targetAP.Port())
	}
	target := conn.AddrFromIPPort(targetAP)
	clientAP := netip.AddrPortFrom(netip.AddrFrom4([4]byte{198, 51, 100, 7}), 40000)

	// ---- uplink with a fixed 8-byte payload (its geometry is the subject of vfC05_RelayUplink)
	peerPacker, _, _ := vfClientSide(sp, smtu, pskS)
	ph := peerPacker.ClientPackerInfo().Headroom
	pb := make([]byte, ph.Front+8+ph.Rear)
	_, pstart, pn, err := peerPacker.PackInPlace(context.Background(), pb, target, ph.Front, 8)
	vfAssert(err == nil, "small uplink packet packs")
	cpacker, cunpacker, cmax := vfClientSide(cp, cmtu, pskC)
	upHead := zerocopy.UDPRelayHeadroom(cpacker.ClientPackerInfo().Headroom, vfServerUnpackerHeadroom(sp))
	ub := make([]byte, upHead.Front+pn+upHead.Rear)
	copy(ub[upHead.Front:], pb[pstart:pstart+pn])
	su := vfServerUnpacker(sp, pskS, ub[upHead.Front:upHead.Front+pn], target)
	ta, ps, pl, err := su.UnpackInPlace(ub, clientAP, upHead.Front, pn)
	vfAssert(err == nil && pl == 8, "uplink unpack")
	serverConnPacker, err := su.NewPacker()
	vfAssert(err == nil, "server packer")
	_, s2, l2, err := cpacker.PackInPlace(context.Background(), ub, ta, ps, pl)
	vfAssert(err == nil, "uplink re-pack")

	// ---- the upstream's reply (payload of symbolic size from the target)
	rlen := vfInt("replyLen")
	vfAssume(rlen >= 0 && rlen <= 9000)
	reply := vfBytes("reply", rlen)
	var rpkt []byte
	if cp == 3 {
		rpkt = reply
	} else {
		uu := vfServerUnpacker(cp, pskC, ub[s2:s2+l2], target)
		uh := vfServerUnpackerHeadroom(cp)
		xb := make([]byte, uh.Front+l2+uh.Rear)
		copy(xb[uh.Front:], ub[s2:s2+l2])
		_, _, xl, err := uu.UnpackInPlace(xb, vfUpstream, uh.Front, l2)
		vfAssert(err == nil && xl == 8, "upstream unpacks the relayed packet")
		up, err := uu.NewPacker()
		vfAssert(err == nil, "upstream packer")
		rh := up.ServerPackerInfo().Headroom
		rb := make([]byte, rh.Front+rlen+rh.Rear)
		copy(rb[rh.Front:], reply)
		rs, rl, err := up.PackInPlace(rb, targetAP, rh.Front, rlen, 65535)
		vfAssert(err == nil, "upstream packs the reply")
		rpkt = rb[rs : rs+rl]
	}
	n := len(rpkt)

	// ---- the relay's downlink buffer, as relayNatConnToServerConnGeneric lays it out
	maxClientPacketSize := zerocopy.MaxPacketSizeForAddr(smtu, clientAP.Addr())
	headroom := zerocopy.UDPRelayHeadroom(serverConnPacker.ServerPackerInfo().Headroom, cunpacker.ClientUnpackerInfo().Headroom)
	natConnRecvBufSize := cmax
	vfAssume(n <= natConnRecvBufSize) // larger datagrams are truncated by the socket read and dropped on the flags check
	packetBuf := make([]byte, headroom.Front+natConnRecvBufSize+headroom.Rear)
	copy(packetBuf[headroom.Front:], rpkt)
	pktSrc := vfUpstream
	if cp == 3 {
		pktSrc = targetAP
	}
	srcAP, payloadStart, payloadLength, err := cunpacker.UnpackInPlace(packetBuf, pktSrc, headroom.Front, n)
	vfAssert(err == nil, "a genuine reply unpacks")
	vfAssert(payloadLength == rlen, "reply payload length survives the unpack")
	vfAssert(srcAP.Port() == targetAP.Port() && srcAP.Addr().Unmap() == targetAP.Addr(), "the reply's true source is attached")
	packetStart, packetLength, err := serverConnPacker.PackInPlace(packetBuf, srcAP, payloadStart, payloadLength, maxClientPacketSize)
	if err != nil {
		vfAssert(errors.Is(err, zerocopy.ErrPayloadTooBig), "the only re-packing error is payload-too-big")
		vfReach("toobig")
		return
	}
	vfAssert(packetStart >= 0 && packetLength >= payloadLength && packetStart+packetLength <= len(packetBuf), "the re-packed reply lies inside the relay's packet buffer")
	vfAssert(packetLength <= maxClientPacketSize, "the re-packed reply respects the size limit of the path to the proxy client")
	w := vfInt("w")
	vfAssume(w >= 0 && w < rlen)
	if sp != 0 {
		vfAssert(packetBuf[packetStart+packetLength-rlen+w] == reply[w], "reply payload bytes unchanged by unpack and re-pack")
	}
	vfReach("end")
}

package service

import (
	"net/netip"
	"time"

	"github.com/database64128/shadowsocks-go/conn"
	"github.com/database64128/shadowsocks-go/direct"
	"github.com/database64128/shadowsocks-go/jsoncfg"
	"github.com/database64128/shadowsocks-go/ss2022"
	"github.com/database64128/shadowsocks-go/stats"
	"go.uber.org/zap"
)

// C18 — validators: accepted configurations satisfy the documented invariants, omitted fields get
// the documented defaults, everything else is refused.

var vfBatchModes = []string{"", "no", "sendmmsg", "bogus"}

func vfC18_UDPPerf() {
	mode := vfBatchModes[vfCase("mode")]
	rb, sb, cc := vfInt("relayBatch"), vfInt("recvBatch"), vfInt("chanCap")
	c := UDPPerfConfig{BatchMode: mode, RelayBatchSize: rb, ServerRecvBatchSize: sb, SendChannelCapacity: cc}
	err := c.CheckAndApplyDefaults()
	okIn := vfAnd(vfAnd(rb >= 0 && rb <= 1024, sb >= 0 && sb <= 1024), vfOr(cc == 0, cc >= 64))
	if mode == "bogus" {
		okIn = false
	}
	vfAssert((err == nil) == okIn, "accepted exactly when every field is in its documented range")
	if err == nil {
		vfAssert(c.RelayBatchSize >= 1 && c.RelayBatchSize <= 1024, "relay batch size within [1,1024]")
		vfAssert(c.ServerRecvBatchSize >= 1 && c.ServerRecvBatchSize <= 1024, "recv batch size within [1,1024]")
		vfAssert(c.SendChannelCapacity >= 64, "send channel capacity at least 64")
		vfAssert(c.RelayBatchSize == int(vfIte(rb == 0, 256, uint64(rb))), "omitted relay batch size is 256, explicit one is kept")
		vfAssert(c.ServerRecvBatchSize == int(vfIte(sb == 0, 64, uint64(sb))), "omitted recv batch size is 64, explicit one is kept")
		vfAssert(c.SendChannelCapacity == int(vfIte(cc == 0, 1024, uint64(cc))), "omitted channel capacity is 1024, explicit one is kept")
		vfReach("accepted")
	}
	vfReach("end")
}

var vfNetworks = []string{"udp", "udp4", "udp6", "tcp", ""}

func vfC18_UDPListener() {
	network := vfNetworks[vfCase("net")]
	nat := vfI64("natTimeout")
	legacy := vfCase("legacy") == 1
	if legacy {
		// the legacy single-listener field is converted exactly as ServerConfig.Initialize does
		sec := vfInt("natTimeoutSec")
		nat = int64(time.Duration(sec) * time.Second)
	}
	lnc := UDPListenerConfig{ListenerConfig: ListenerConfig{Network: network, Address: "[::1]:0"}, NATTimeout: jsoncfg.Duration(nat)}
	minNAT := time.Duration(0)
	if vfCase("ss2022") == 1 {
		minNAT = ss2022.ReplayWindowDuration
	}
	res, err := lnc.Configure(nil, "s", conn.NewListenConfigCache(), minNAT, false)
	if err == nil {
		vfAssert(network == "udp" || network == "udp4" || network == "udp6", "only UDP networks are accepted")
		vfAssert(res.natTimeout >= minNAT, "accepted NAT timeout is no shorter than the protocol's minimum (replay window)")
		vfAssert(res.natTimeout > 0, "accepted NAT timeout is positive")
		vfAssert(res.natTimeout == time.Duration(vfIte(nat == 0, uint64(5*time.Minute), uint64(nat))), "omitted NAT timeout is 5 minutes, explicit one is kept")
		vfAssert(res.relayBatchSize == 256 && res.serverRecvBatchSize == 64 && res.sendChannelCapacity == 1024, "omitted perf fields get their defaults")
		vfReach("accepted")
	} else {
		bad := vfOr(!(network == "udp" || network == "udp4" || network == "udp6"), vfAnd(nat != 0, nat < int64(minNAT)))
		vfAssert(bad, "a configuration within the documented ranges is refused")
		vfReach("refused")
	}
	vfReach("end")
}

// vfC18_DirectTunnel: a "direct" server with UDP enabled.  Whatever tunnel address kind and
// target-only flag the configuration carries, it is either refused at load, or the first reply
// relayed back to the client does not crash the process.
//   cases: dom (0 IP tunnel address, 1 domain tunnel address)
func vfC18_DirectTunnel() {
	var tunnel conn.Addr
	if vfCase("dom") == 1 {
		tunnel = conn.MustAddrFromDomainPort("dns.example.com", 53)
	} else {
		tunnel = conn.AddrFromIPAndPort(vfAddrFrom4([4]byte{9, 9, 9, 9}), 53)
	}
	sc := &ServerConfig{Name: "d", Protocol: "direct", MTU: 1500, TunnelRemoteAddress: tunnel, TunnelUDPTargetOnly: vfBool("targetOnly"),
		UDPListeners: []UDPListenerConfig{{ListenerConfig: ListenerConfig{Network: "udp", Address: "[::1]:0"}}}}
	err := sc.Initialize(nil, conn.NewListenConfigCache(), stats.Config{}, nil, zap.NewNop(), 0)
	if err != nil {
		vfReach("refused")
		return
	}
	// what the UDP relay does with this configuration: unpack a client packet, pack the reply
	nat := direct.NewDirectUDPNATServer(sc.TunnelRemoteAddress, sc.TunnelUDPTargetOnly)
	u, err := nat.NewUnpacker()
	vfAssert(err == nil, "unpacker")
	buf := make([]byte, 100)
	client := netip.AddrPortFrom(vfAddrFrom4([4]byte{198, 51, 100, 7}), 40000)
	ta, ps, pl, err := u.UnpackInPlace(buf, client, 0, 50)
	vfAssert(err == nil && ta.Equals(tunnel) && ps == 0 && pl == 50, "packets are forwarded to the tunnel address")
	p, err := u.NewPacker()
	vfAssert(err == nil, "packer")
	var from4 [4]byte
	copy(from4[:], vfBytes("replyFrom", 4))
	_, _, _ = p.PackInPlace(buf, netip.AddrPortFrom(vfAddrFrom4(from4), vfU16("replyPort")), 0, 50, 1472)
	vfReach("accepted")
}

package service

import (
	"context"
	"errors"
	"io"
	"net"
	"os"
	"time"

	"github.com/database64128/shadowsocks-go/conn"
	"github.com/database64128/shadowsocks-go/dns"
	"github.com/database64128/shadowsocks-go/netio"
	"github.com/database64128/shadowsocks-go/router"
	"github.com/database64128/shadowsocks-go/stats"
	"github.com/database64128/shadowsocks-go/zerocopy"
	"go.uber.org/zap"
)

// C13 — the TCP relay connects clients to the routed destination and mirrors half-closes.

// vfPending records what the relay does with the accepted connection.
type vfPending struct {
	c        *vfRelayConn
	proceeds int
	aborts   int
	abortRes conn.DialResult
}

func (p *vfPending) Proceed() (netio.Conn, error) { p.proceeds++; return p.c, nil }
func (p *vfPending) Abort(r conn.DialResult) error {
	p.aborts++
	p.abortRes = r
	return nil
}

// vfRelayConn: a vfConn whose first read (the initial-payload wait) has a scripted outcome.
type vfRelayConn struct {
	vfConn
	firstN    int   // bytes available at the first read
	firstErr  error // nil | io.EOF | os.ErrDeadlineExceeded | other
	firstDone bool
	deadlines int
}

func (c *vfRelayConn) Read(p []byte) (int, error) {
	if !c.firstDone && c.deadlines > 0 {
		// the read performed while waiting for the initial payload
		c.firstDone = true
		n := min(c.firstN, len(p), len(c.data)-c.pos)
		copy(p[:n], c.data[c.pos:c.pos+n])
		c.pos += n
		return n, c.firstErr
	}
	return c.vfConn.Read(p)
}
func (c *vfRelayConn) SetReadDeadline(t time.Time) error { c.deadlines++; return nil }

type vfStreamServer struct {
	req    netio.ConnRequest
	native bool
}

func (s *vfStreamServer) StreamServerInfo() netio.StreamServerInfo {
	return netio.StreamServerInfo{NativeInitialPayload: s.native}
}
func (s *vfStreamServer) HandleStream(c netio.Conn, l *zap.Logger) (netio.ConnRequest, error) {
	return s.req, nil
}

type vfRelayDialer struct {
	native  bool
	fail    error
	dials   int
	addr    conn.Addr
	payload []byte
	remote  *vfConn
}

func (d *vfRelayDialer) NewStreamDialer() (netio.StreamDialer, netio.StreamDialerInfo) {
	return d, netio.StreamDialerInfo{Name: "out", NativeInitialPayload: d.native}
}
func (d *vfRelayDialer) DialStream(ctx context.Context, addr conn.Addr, payload []byte) (netio.Conn, error) {
	d.dials++
	d.addr = addr
	d.payload = append([]byte{}, payload...)
	if d.fail != nil {
		return nil, d.fail
	}
	return d.remote, nil
}

var vfErrOther = errors.New("other read error")

// vfTCPConn returns the *net.TCPConn handed to handleConn.  The relay only uses it for the
// remote address and for Close (the handshake is done by the stub server); in the symbolic run
// those two methods are modelled, natively it is a real loopback connection.
func vfTCPConn() *net.TCPConn {
	if vfSymbolic() {
		return &net.TCPConn{}
	}
	l, err := net.ListenTCP("tcp", &net.TCPAddr{IP: net.IPv4(127, 0, 0, 1)})
	if err != nil {
		panic(err)
	}
	defer l.Close()
	go func() {
		c, err := net.DialTCP("tcp", nil, l.Addr().(*net.TCPAddr))
		if err == nil {
			defer c.Close()
			time.Sleep(time.Second)
		}
	}()
	c, err := l.AcceptTCP()
	if err != nil {
		panic(err)
	}
	return c
}

// cases: route (0 default client, 1 rejected), wait (0|1 listener waits for initial payload),
//        native (0|1 outgoing client supports initial payload), dial (0 ok, 1 fails)
func vfC13_Relay() {
	route, wait, native, dialFails := vfCase("route"), vfCase("wait") == 1, vfCase("native") == 1, vfCase("dial") == 1
	// the accepted connection
	target := conn.AddrFromIPAndPort(vfAddrFrom4([4]byte{93, 184, 216, 34}), vfU16("port"))
	pl := vfInt("serverPayloadLen")
	vfAssume(pl >= 0 && pl <= 64)
	serverPayload := vfBytes("serverPayload", pl)
	cdata := vfInt("clientDataLen")
	vfAssume(cdata >= 0 && cdata <= 200)
	cc := &vfRelayConn{}
	cc.data = vfBytes("clientData", cdata)
	cc.firstN = vfInt("firstReadLen")
	vfAssume(cc.firstN >= 0 && cc.firstN <= cdata)
	switch vfConcretize(vfU64("firstReadOutcome"), 0, 3) {
	case 1:
		cc.firstErr = io.EOF
		vfAssume(cc.firstN == cdata)
	case 2:
		cc.firstErr = os.ErrDeadlineExceeded
		vfAssume(cc.firstN == 0)
	case 3:
		cc.firstErr = vfErrOther
	}
	pend := &vfPending{c: cc}
	srv := &vfStreamServer{req: netio.ConnRequest{PendingConn: pend, Addr: target, Payload: serverPayload, Username: "alice"}}
	// the outgoing side
	rdata := vfInt("remoteDataLen")
	vfAssume(rdata >= 0 && rdata <= 200)
	remote := &vfConn{}
	remote.data = vfBytes("remoteData", rdata)
	d := &vfRelayDialer{native: native, remote: remote}
	if dialFails {
		d.fail = errors.New("dial failed")
	}
	rcfg := router.Config{DefaultTCPClientName: "out"}
	if route == 1 {
		rcfg.DefaultTCPClientName = "reject"
	}
	r, err := rcfg.Router(zap.NewNop(), nil, map[string]dns.SimpleResolver{}, map[string]netio.StreamClient{"out": d}, map[string]zerocopy.UDPClient{}, map[string]int{"s": 0})
	vfAssert(err == nil, "router")
	col := stats.NewServerCollector()
	lnc := tcpRelayListener{logger: zap.NewNop(), waitForInitialPayload: wait, initialPayloadWaitTimeout: defaultInitialPayloadWaitTimeout, initialPayloadWaitBufferSize: defaultInitialPayloadWaitBufferSize}
	s := NewTCPRelay(0, "s", []tcpRelayListener{lnc}, srv, col, r, zap.NewNop())

	s.handleConn(context.Background(), &s.listeners[0], vfTCPConn())

	if route == 1 {
		vfAssert(d.dials == 0, "a rejected request is not dialed")
		vfAssert(pend.aborts == 1 && pend.proceeds == 0 && pend.abortRes.Code != conn.DialResultCodeSuccess, "router rejection is reported with a failure reply")
		vfReach("rejected")
		return
	}
	waited := pl == 0 && native && wait
	vfAssert((cc.deadlines > 0) == waited, "the relay waits for an initial payload exactly when none came with the request, the outgoing client can carry one and waiting is enabled")
	if waited && cc.firstErr == vfErrOther {
		vfAssert(d.dials == 0, "a failed initial-payload read ends the connection")
		vfReach("readfail")
		return
	}
	vfAssert(d.dials == 1, "the routed client is dialed exactly once")
	vfAssert(d.addr.Equals(target), "with exactly the requested target")
	wantLen := pl
	if waited {
		wantLen = cc.firstN
	}
	vfAssert(len(d.payload) == wantLen, "the initial payload is the request's, or what was read while waiting - never both")
	w := vfInt("w")
	vfAssume(w >= 0 && w < wantLen)
	if waited {
		vfAssert(d.payload[w] == cc.data[w], "bytes read while waiting are forwarded once with the dial")
	} else {
		vfAssert(d.payload[w] == serverPayload[w], "the request's initial payload is forwarded with the dial")
	}
	if dialFails {
		vfAssert((pend.aborts == 1) == (pend.proceeds == 0), "a failed onward connection is reported with the failure reply unless success had to be signalled first")
		vfAssert(pend.proceeds == 0 || waited, "success is signalled early only to collect the initial payload")
		vfReach("dialfail")
		return
	}
	vfAssert(pend.proceeds == 1 && pend.aborts == 0, "success is signalled exactly once")
	// both directions copied until end of stream, half-closes mirrored, statistics exact
	consumed := 0
	if waited {
		consumed = cc.firstN
	}
	vfAssert(len(remote.out) == cdata-consumed, "client bytes after the initial payload reach the remote exactly once")
	vfAssert(len(cc.out) == rdata, "remote bytes reach the client")
	w2 := vfInt("w2")
	vfAssume(w2 >= 0 && w2 < cdata-consumed)
	vfAssert(remote.out[w2] == cc.data[consumed+w2], "client-to-remote bytes in order, none dropped or repeated")
	w3 := vfInt("w3")
	vfAssume(w3 >= 0 && w3 < rdata)
	vfAssert(cc.out[w3] == remote.data[w3], "remote-to-client bytes in order")
	vfAssert(remote.closedWrite && cc.closedWrite, "end-of-stream from each side is passed on as a write shutdown of the other")
	snap := col.Snapshot()
	vfAssert(len(snap.Users) == 1 && snap.Users[0].Name == "alice", "traffic is charged to the authenticated user")
	vfAssert(snap.Users[0].DownlinkBytes == uint64(rdata) && snap.Users[0].UplinkBytes == uint64(cdata-consumed+wantLen), "byte counts handed to statistics equal the bytes delivered each way")
	vfReach("end")
}

package cred

import (
	"bytes"

	"github.com/database64128/shadowsocks-go/ss2022"
	"go.uber.org/zap"
)

// C08 / C20 — the credential manager.

func vfKey(name string) []byte { return vfBytes(name, 16) }

type vfWorld struct {
	path     string
	tcp, udp ss2022.CredStore
	m        *Manager
	s        *ManagedServer
}

func vfNewWorld(path string) (*vfWorld, error) {
	w := &vfWorld{path: path, m: NewManager(zap.NewNop())}
	s, err := w.m.RegisterServer("s", path, 16, &w.tcp, &w.udp)
	w.s = s
	return w, err
}

// vfAccepted: is a client holding key k accepted by the TCP and UDP stores, and as whom?
func vfAccepted(w *vfWorld, k []byte) (ok bool, name string) {
	h := ss2022.PSKHash(k)
	ct, okT := w.tcp.LookupUser(h)
	cu, okU := w.udp.LookupUser(h)
	vfAssert(okT == okU, "TCP and UDP stores accept the same keys")
	if okT {
		vfAssert(ct.Name == cu.Name, "TCP and UDP stores attribute a key to the same user")
	}
	return okT, ct.Name
}

// vfViewsAgree: the three views - keys accepted for new sessions, the API listing, the file the
// next save writes - denote the same user set.  keys lists every key the history ever used.
func vfViewsAgree(w *vfWorld, keys [][]byte) {
	users := []string{"a", "b"}
	for _, k := range keys {
		ok, name := vfAccepted(w, k)
		listed := false
		for _, u := range users {
			c, has := w.s.GetCredential(u)
			if has && bytes.Equal(c.UPSK, k) {
				listed = true
			}
		}
		vfAssert(ok == listed, "a key is accepted exactly when the API lists a user holding it")
		if ok {
			c, has := w.s.GetCredential(name)
			vfAssert(has && bytes.Equal(c.UPSK, k), "an accepted key is attributed to a user who holds it")
		}
	}
	// the file view: what a save writes now must load, and list the same users
	vfAssert(w.s.saveToFile() == nil, "save succeeds")
	w2, err := vfNewWorld(w.path)
	vfAssert(err == nil, "the saved store file loads")
	for _, u := range users {
		c1, has1 := w.s.GetCredential(u)
		c2, has2 := w2.s.GetCredential(u)
		vfAssert(has1 == has2, "the saved file lists the same users as the API")
		if has1 && has2 {
			vfAssert(bytes.Equal(c1.UPSK, c2.UPSK), "the saved file holds the same keys as the API")
		}
	}
}

// vfC08_History: a script of management operations (digits) over users {a,b} and symbolic keys.
//   1 add(a,K1)  2 add(b,K2)  3 update(a,K3)  4 delete(a)  5 delete(b)  6 update(b,K3)
//   7 reload after the file was replaced by {a:K4}      8 add(b,K1)
//   9 reload after the file was put back to its initial content (byte-identical: an empty store)
func vfC08_History() {
	script := vfCase("script")
	path := vfStorePath()
	vfWriteStore(path, nil, nil)
	w, err := vfNewWorld(path)
	vfAssert(err == nil, "empty store loads")
	k1, k2, k3, k4 := vfKey("K1"), vfKey("K2"), vfKey("K3"), vfKey("K4")
	keys := [][]byte{k1, k2, k3, k4}
	var ops []int
	for s := script; s > 0; s /= 10 {
		ops = append([]int{s % 10}, ops...)
	}
	for _, op := range ops {
		switch op {
		case 1:
			_ = w.s.AddCredential("a", k1)
		case 2:
			_ = w.s.AddCredential("b", k2)
		case 3:
			_ = w.s.UpdateCredential("a", k3)
		case 4:
			_ = w.s.DeleteCredential("a")
		case 5:
			_ = w.s.DeleteCredential("b")
		case 6:
			_ = w.s.UpdateCredential("b", k3)
		case 7:
			vfWriteStore(path, []string{"a"}, [][]byte{k4})
			vfAssert(w.s.LoadFromFile() == nil, "well-formed store file reloads")
		case 8:
			_ = w.s.AddCredential("b", k1)
		case 9:
			vfWriteStore(path, nil, nil)
			vfAssert(w.s.LoadFromFile() == nil, "well-formed store file reloads")
		}
		if op == 7 || op == 9 {
			// after a reload the server serves exactly the users of the file
			ca, hasA := w.s.GetCredential("a")
			_, hasB := w.s.GetCredential("b")
			vfAssert(!hasB, "after a reload only the file's users are listed")
			if op == 7 {
				vfAssert(hasA && bytes.Equal(ca.UPSK, k4), "after a reload the file's users are listed with the file's keys")
			} else {
				vfAssert(!hasA, "after a reload of an empty store no users are listed")
			}
		}
		vfViewsAgree(w, keys)
	}
	vfReach("end")
}

// vfC20_Crash: an old store (0..2 users), one change made through the API, then the save that the
// debounce goroutine performs - with a crash or write error after a symbolic number of bytes.
// After a restart the store must load and hold either the previous or the new user set.
//   cases: users (0..2 in the old store), op (1 add c, 2 delete a, 3 update a)
func vfC20_Crash() {
	nUsers := vfCase("users")
	op := vfCase("op")
	path := vfStorePath()
	kA, kB, kC := vfKey("KA"), vfKey("KB"), vfKey("KC")
	vfAssume(!bytes.Equal(kA, kB) && !bytes.Equal(kA, kC) && !bytes.Equal(kB, kC))
	names := []string{"a", "b"}[:nUsers]
	keys := [][]byte{kA, kB}[:nUsers]
	vfWriteStore(path, names, keys)
	w, err := vfNewWorld(path)
	vfAssert(err == nil, "old store loads")
	var opErr error
	switch op {
	case 1:
		opErr = w.s.AddCredential("c", kC)
	case 2:
		opErr = w.s.DeleteCredential("a")
	default:
		opErr = w.s.UpdateCredential("a", kC)
	}
	changed := opErr == nil
	vfEnableFaults()
	var saveErr error
	crashed := vfCrashable(func() {
		// what dequeueSave does after the cooldown
		w.s.mu.RLock()
		saveErr = w.s.saveToFile()
		w.s.mu.RUnlock()
	})
	// restart
	w2, err := vfNewWorld(path)
	vfAssert(err == nil, "after a crash or write error at any point the store file is a complete, loadable document")
	// old set or new set
	isOld, isNew := true, true
	for _, u := range []string{"a", "b", "c"} {
		c2, has2 := w2.s.GetCredential(u)
		// old
		oldHas, oldKey := false, kA
		if u == "a" && nUsers >= 1 {
			oldHas = true
		}
		if u == "b" && nUsers >= 2 {
			oldHas, oldKey = true, kB
		}
		if has2 != oldHas || (has2 && !bytes.Equal(c2.UPSK, oldKey)) {
			isOld = false
		}
		c1, has1 := w.s.GetCredential(u)
		if has2 != has1 || (has2 && !bytes.Equal(c2.UPSK, c1.UPSK)) {
			isNew = false
		}
	}
	vfAssert(isOld || isNew, "the persisted users are exactly the previous or the new set")
	if !crashed && saveErr == nil {
		vfAssert(isNew, "a completed save persists the new set")
	}
	_ = changed
	vfReach("end")
}

// vfC20_Shutdown: a change is acknowledged (the API call returned), then shutdown begins (the
// context is cancelled) at one of the phases of the debounce goroutine, and Stop returns.
// The change must be in the store file then.
//   phase 0: cancel while the save is still queued (the goroutine has not picked it up)
//   phase 1: cancel while the goroutine is cooling down (timer not fired)
//   phase 2: the timer fires and the save runs, then cancel
func vfC20_Shutdown() {
	phase := vfCase("phase")
	path := vfStorePath()
	kA, kC := vfKey("KA"), vfKey("KC")
	vfAssume(!bytes.Equal(kA, kC))
	vfWriteStore(path, []string{"a"}, [][]byte{kA})
	w, err := vfNewWorld(path)
	vfAssert(err == nil, "old store loads")
	ctx, cancel := vfCancelContext()
	vfSchedule(0) // ready select cases are chosen nondeterministically, no preemption needed
	w.s.Start(ctx)
	if phase >= 1 {
		vfSettle() // the goroutine is waiting for a save job
	}
	vfAssert(w.s.AddCredential("c", kC) == nil, "change acknowledged")
	if phase >= 1 {
		vfSettle() // the goroutine picked the job up and is cooling down
	}
	if phase == 2 {
		vfFireTimers(5 * vfSecond)
		vfSettle()
	}
	cancel()
	w.s.Stop()
	w2, err := vfNewWorld(path)
	vfAssert(err == nil, "store loads after shutdown")
	_, has := w2.s.GetCredential("c")
	vfAssert(has, "a change acknowledged before shutdown began is written before the service stops")
	vfReach("end")
}

// vfC08_Concurrent: two management operations in two goroutines (every interleaving at
// lock-operation granularity, bounded preemptions); afterwards the three views must agree.
//   mode 0: add(a,K1) || delete(a)      mode 1: add(a,K1) || update(a,K2) (a exists with K3)
//   mode 2: update(a,K1) || delete(a) (a exists with K3)
func vfC08_Concurrent() {
	mode := vfCase("mode")
	path := vfStorePath()
	k1, k2, k3 := vfKey("K1"), vfKey("K2"), vfKey("K3")
	vfAssume(!bytes.Equal(k1, k2) && !bytes.Equal(k1, k3) && !bytes.Equal(k2, k3))
	if mode == 0 {
		vfWriteStore(path, nil, nil)
	} else {
		vfWriteStore(path, []string{"a"}, [][]byte{k3})
	}
	w, err := vfNewWorld(path)
	vfAssert(err == nil, "store loads")
	vfSchedule(vfCase("preempt"))
	switch mode {
	case 0:
		vfGo("t1", func() { _ = w.s.AddCredential("a", k1) })
		vfGo("t2", func() { _ = w.s.DeleteCredential("a") })
	case 1:
		vfGo("t1", func() { _ = w.s.AddCredential("a", k1) })
		vfGo("t2", func() { _ = w.s.UpdateCredential("a", k2) })
	default:
		vfGo("t1", func() { _ = w.s.UpdateCredential("a", k1) })
		vfGo("t2", func() { _ = w.s.DeleteCredential("a") })
	}
	vfJoin()
	vfViewsAgree(w, [][]byte{k1, k2, k3})
	vfReach("end")
}

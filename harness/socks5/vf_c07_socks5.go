package socks5

import (
	"github.com/database64128/shadowsocks-go/conn"
	"go.uber.org/zap"
)

// C07 — SOCKS5 handshakes carry requests faithfully.

func vfRefReply(code conn.DialResultCode) byte {
	switch code {
	case 0:
		return 0
	case 13:
		return 2
	case 100, 101, 102:
		return 3
	case 112, 113:
		return 4
	case 111:
		return 5
	}
	return 1
}

// vfRefAddr writes the RFC 1928 address encoding of the given kind with symbolic contents and
// returns the bytes.  kind 0 IPv4, 1 IPv6, 3 domain (symbolic length 1..255)
func vfRefAddr(kind int) []byte {
	switch kind {
	case 0:
		return append([]byte{1}, vfBytes("addr4port", 6)...)
	case 1:
		return append([]byte{4}, vfBytes("addr6port", 18)...)
	}
	dl := vfInt("domainLen")
	vfAssume(dl >= 1 && dl <= 255)
	b := append([]byte{3, byte(dl)}, vfBytes("domain", dl)...)
	return append(b, vfBytes("port", 2)...)
}

// vfC07_Server: the real server reads an RFC 1928/1929 byte stream produced by a reference
// client with symbolic contents and symbolic fragmentation.
//   cases: auth (0|1), kind (0,1,3 target), cmd (1 CONNECT, 3 UDP ASSOCIATE, 2 BIND)
func vfC07_Server() {
	auth := vfCase("auth") == 1
	kind := vfCase("kind")
	cmd := byte(vfCase("cmd"))
	method := byte(MethodNoAuthenticationRequired)
	if auth {
		method = MethodUsernamePassword
	}
	// method selection message: nm methods, the wanted one at a symbolic position (or nowhere)
	nm := vfInt("nmethods")
	vfAssume(nm >= 1 && nm <= vfCase("maxMethods"))
	methods := vfBytes("methods", nm)
	pos := vfInt("methodPos")
	offered := vfBool("offered")
	if offered {
		vfAssume(pos >= 0 && pos < nm && methods[pos] == method)
	} else {
		// the wanted method is absent: every offered method differs (bounded list for this case)
		vfAssume(nm <= 6)
		for i := 0; i < nm; i++ {
			vfAssume(methods[i] != method)
		}
	}
	stream := append([]byte{5, byte(nm)}, methods...)
	var uname, passwd []byte
	if auth {
		ul, pl := vfInt("ulen"), vfInt("plen")
		vfAssume(ul >= 1 && ul <= 255 && pl >= 1 && pl <= 255)
		uname, passwd = vfBytes("uname", ul), vfBytes("passwd", pl)
		stream = append(stream, 1, byte(ul))
		stream = append(stream, uname...)
		stream = append(stream, byte(pl))
		stream = append(stream, passwd...)
	}
	addrBytes := vfRefAddr(kind)
	stream = append(stream, 5, cmd, 0)
	stream = append(stream, addrBytes...)
	reqEnd := len(stream)
	stream = append(stream, 0x42) // first byte of application data: must stay unread

	cfg := &StreamServerConfig{EnableUserPassAuth: auth, EnableTCP: true, EnableUDP: false,
		Users: []UserInfo{{Username: "alice", Password: "wonderland"}, {Username: "bob", Password: "builder"}}}
	server, err := cfg.NewStreamServer()
	vfAssert(err == nil, "server config")
	c := &vfConn{}
	c.data = stream
	c.frags = vfCase("frags")
	c.shorts = vfCase("shorts")
	req, err := server.HandleStream(c, zap.NewNop())

	if !offered {
		vfAssert(err != nil, "no acceptable method: refused")
		vfAssert(len(c.out) == 2 && c.out[0] == 5 && c.out[1] == 0xFF, "method selection reply NO ACCEPTABLE METHODS")
		vfReach("nomethod")
		return
	}
	vfAssert(len(c.out) >= 2 && c.out[0] == 5 && c.out[1] == method, "method selection reply names the method")
	off := 2
	if auth {
		isAlice := string(uname) == "alice" && string(passwd) == "wonderland"
		isBob := string(uname) == "bob" && string(passwd) == "builder"
		okCred := isAlice || isBob
		vfAssert(len(c.out) >= 4 && c.out[2] == 1, "authentication reply version")
		vfAssert((c.out[3] == 0) == okCred, "authentication succeeds exactly for a configured user with the right password")
		if !okCred {
			vfAssert(err != nil && len(c.out) == 4, "request not honoured without valid credentials")
			vfReach("badcred")
			return
		}
		off = 4
		if err == nil {
			vfAssert((req.Username == "alice") == isAlice && (req.Username == "bob") == isBob, "user identity is the authenticated one")
		}
	}
	if cmd != CmdConnect {
		vfAssert(err != nil, "unsupported command refused")
		vfAssert(len(c.out) == off+10 && c.out[off] == 5 && c.out[off+1] == ReplyCommandNotSupported, "command-not-supported reply")
		vfReach("badcmd")
		return
	}
	vfAssert(err == nil, "well-formed CONNECT accepted")
	vfAssert(c.pos == reqEnd, "nothing is read beyond the handshake")
	// the extracted address equals the reference encoding
	out := make([]byte, MaxAddrLen)
	n := WriteAddrFromConnAddr(out, req.Addr)
	if kind == 1 && req.Addr.IP().Is4In6() {
		vfReach("4in6")
	} else {
		vfAssert(n == len(addrBytes), "extracted address has the requested form")
		w := vfInt("w")
		vfAssume(w >= 0 && w < n)
		vfAssert(out[w] == addrBytes[w], "extracted address equals what the client asked for")
	}
	// the outcome of the onward connection is reported with the corresponding reply
	if vfBool("proceed") {
		pc, err := req.Proceed()
		vfAssert(err == nil && pc != nil, "proceed")
		vfAssert(len(c.out) == off+10 && c.out[off] == 5 && c.out[off+1] == 0 && c.out[off+2] == 0 && c.out[off+3] == 1, "success reply")
		b := make([]byte, 4)
		k, err := pc.Read(b)
		vfAssert(err == nil && k == 1 && b[0] == 0x42, "application data follows untouched")
	} else {
		code := conn.DialResultCode(vfU8("dialCode"))
		vfAssert(req.Abort(conn.DialResult{Code: code}) == nil, "abort")
		vfAssert(len(c.out) == off+10 && c.out[off] == 5 && c.out[off+1] == vfRefReply(code) && c.out[off+3] == 1, "failure reply corresponds to the dial result")
	}
	vfReach("end")
}

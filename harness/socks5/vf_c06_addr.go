package socks5

import (
	"github.com/database64128/shadowsocks-go/conn"
)

// C06 — SOCKS address parsers on arbitrary bytes: no panic, and a successful parse is consistent
// with the bytes (length, re-encoding).

const vfMaxBuf = 300

func vfC06_ConnAddrFromSlice() {
	n := vfInt("len")
	vfAssume(n >= 0 && n <= vfMaxBuf)
	b := vfBytes("buf", n)
	mode := vfCase("mode")
	var addr conn.Addr
	var k int
	var err error
	if mode == 0 {
		addr, k, err = ConnAddrFromSlice(b)
	} else {
		var c DomainCache
		addr, k, err = c.ConnAddrFromSlice(b)
	}
	if err != nil {
		vfReach("err")
		return
	}
	vfAssert(k >= 7 || (k >= 4 && b[0] == AtypDomainName), "parsed length plausible")
	vfAssert(k <= n, "parsed length within the buffer")
	vfAssert(addr.IsValid(), "successful parse yields a valid address")
	vfAssert(addr.Port() == uint16(b[k-2])<<8|uint16(b[k-1]), "port is the last two bytes")
	// re-encode: same bytes except for IPv4-mapped IPv6 (documented normalisation)
	out := make([]byte, MaxAddrLen)
	m := WriteAddrFromConnAddr(out, addr)
	vfAssert(m == LengthOfAddrFromConnAddr(addr), "LengthOf agrees with Write")
	if b[0] == AtypIPv6 && addr.IP().Is4In6() {
		vfAssert(m == IPv4AddrLen && out[0] == AtypIPv4, "4in6 normalised to IPv4")
		vfReach("4in6")
	} else {
		vfAssert(m == k, "re-encoded length equals parsed length")
		w := vfInt("w")
		vfAssume(w >= 0 && w < k)
		vfAssert(out[w] == b[w], "re-encoding reproduces the input bytes")
	}
	vfReach("end")
}

func vfC06_AddrPortFromSlice() {
	n := vfInt("len")
	vfAssume(n >= 0 && n <= vfMaxBuf)
	b := vfBytes("buf", n)
	ap, k, err := AddrPortFromSlice(b)
	if err != nil {
		vfReach("err")
		return
	}
	vfAssert(k == 7 || k == 19, "parsed length is that of an IP address")
	vfAssert(k <= n, "parsed length within the buffer")
	vfAssert(ap.IsValid(), "valid address")
	vfAssert(ap.Port() == uint16(b[k-2])<<8|uint16(b[k-1]), "port is the last two bytes")
	out := make([]byte, MaxAddrLen)
	m := WriteAddrFromAddrPort(out, ap)
	vfAssert(m == LengthOfAddrFromAddrPort(ap), "LengthOf agrees with Write")
	if !(b[0] == AtypIPv6 && ap.Addr().Is4In6()) {
		vfAssert(m == k, "re-encoded length equals parsed length")
		w := vfInt("w")
		vfAssume(w >= 0 && w < k)
		vfAssert(out[w] == b[w], "re-encoding reproduces the input bytes")
	}
	vfReach("end")
}

// Readers: arbitrary stream, arbitrary fragmentation.
func vfC06_FromReader() {
	n := vfInt("len")
	vfAssume(n >= 0 && n <= vfMaxBuf)
	data := vfBytes("buf", n)
	r := &vfReader{data: data, frags: 3}
	mode := vfCase("mode")
	if mode == 0 {
		b, err := AppendFromReader(nil, r)
		if err != nil {
			vfReach("err")
			return
		}
		vfAssert(len(b) == r.pos, "exactly the address bytes were consumed")
		addr, k, err2 := ConnAddrFromSlice(b)
		vfAssert(k == len(b) || err2 != nil, "appended bytes are exactly one address")
		_ = addr
		w := vfInt("w")
		vfAssume(w >= 0 && w < len(b))
		vfAssert(b[w] == data[w], "appended bytes equal the stream")
	} else {
		addr, err := ConnAddrFromReader(r)
		if err != nil {
			vfReach("err")
			return
		}
		vfAssert(addr.IsValid(), "valid address")
		want, k, err2 := ConnAddrFromSlice(data)
		vfAssert(err2 == nil && k == r.pos, "reader consumed exactly the address")
		vfAssert(addr.IsIP() == want.IsIP() && addr.Port() == want.Port(), "reader and slice parsers agree on kind and port")
		if addr.IsIP() {
			vfAssert(addr.IP() == want.IP(), "reader and slice parsers agree on the IP")
		} else {
			d1, d2 := addr.Domain(), want.Domain()
			vfAssert(len(d1) == len(d2), "reader and slice parsers agree on the domain length")
			w := vfInt("w")
			vfAssume(w >= 0 && w < len(d1))
			vfAssert(d1[w] == d2[w], "reader and slice parsers agree on every domain byte (witness index)")
		}
	}
	vfReach("end")
}

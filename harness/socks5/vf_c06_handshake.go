package socks5

import (
	"github.com/database64128/shadowsocks-go/conn"
	"go.uber.org/zap"
)

// C06 — arbitrary bytes in place of a SOCKS5 peer: the server reading an arbitrary client stream
// and the client reading arbitrary server replies never panic (every failure is an error), and
// what they send stays within the protocol's message sizes.

// vfC06_ServerStream: cases auth (0|1), shorts (short reads anywhere)
func vfC06_ServerStream() {
	auth := vfCase("auth") == 1
	n := vfInt("len")
	vfAssume(n >= 0 && n <= 48)
	cfg := &StreamServerConfig{EnableUserPassAuth: auth, EnableTCP: true, EnableUDP: vfBool("udp"),
		Users: []UserInfo{{Username: "alice", Password: "wonderland"}}}
	server, err := cfg.NewStreamServer()
	vfAssert(err == nil, "server config")
	c := &vfConn{}
	c.data = vfBytes("stream", n)
	c.shorts = vfCase("shorts")
	req, err := server.HandleStream(c, zap.NewNop())
	if err != nil {
		vfAssert(len(c.out) <= 2+2+10, "a refused handshake is answered with at most a method reply, an auth reply and one reply message")
		vfReach("refused")
		return
	}
	vfAssert(req.Addr.IsValid(), "an accepted request names a valid target")
	vfAssert(c.pos <= n, "nothing is read beyond the stream")
	vfReach("accepted")
}

// vfC06_ClientReplies: the client performs a CONNECT (cases auth 0|1) against arbitrary reply bytes.
func vfC06_ClientReplies() {
	auth := vfCase("auth") == 1
	n := vfInt("len")
	vfAssume(n >= 0 && n <= 40)
	c := &vfConn{}
	c.data = vfBytes("replies", n)
	c.shorts = vfCase("shorts")
	target := conn.AddrFromIPAndPort(vfAddrFrom4([4]byte{93, 184, 216, 34}), 443)
	var err error
	if auth {
		u := UserInfo{Username: "alice", Password: "wonderland"}
		err = ClientConnectUsernamePassword(c, u.AppendAuthMsg(nil), target)
	} else {
		err = ClientConnect(c, target)
	}
	if err != nil {
		vfReach("refused")
		return
	}
	vfAssert(c.pos <= n, "nothing is read beyond the replies")
	vfReach("accepted")
}

package socks5

// C11 — the target named in a datagram is the target the relay uses: the per-session domain cache
// of the packet unpackers never hands back another datagram's domain.  Three domain-name targets
// with symbolic names (lengths fixed per instance) are parsed in sequence through ONE DomainCache; each
// result re-encodes to exactly the bytes of its own datagram.
func vfC11_TargetCache() {
	var c DomainCache
	steps := vfCase("steps")
	for i := 0; i < steps; i++ {
		dl := vfCase("dlen") + i%2*vfCase("dstep") // lengths alternate between two values
		b := append([]byte{AtypDomainName, byte(dl)}, vfBytes("domain", dl)...)
		b = append(b, vfBytes("port", 2)...)
		b = append(b, vfBytes("payload", 4)...)
		addr, k, err := c.ConnAddrFromSlice(b)
		if err != nil {
			// only an invalid domain name may be refused
			vfReach("refused")
			continue
		}
		vfAssert(k == 2+dl+2, "parsed length is the address length")
		out := make([]byte, MaxAddrLen)
		m := WriteAddrFromConnAddr(out, addr)
		vfAssert(m == k, "re-encoded length")
		w := vfInt("w")
		vfAssume(w >= 0 && w < k)
		vfAssert(out[w] == b[w], "the parsed target is the one named in this datagram, whatever the cache holds")
	}
	vfReach("end")
}

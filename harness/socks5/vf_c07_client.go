package socks5

import "github.com/database64128/shadowsocks-go/conn"

// vfAddrIs compares an address with an RFC 1928 encoding, field by field.
func vfAddrIs(a conn.Addr, enc []byte) bool {
	port := uint16(enc[len(enc)-2])<<8 | uint16(enc[len(enc)-1])
	if a.Port() != port {
		return false
	}
	switch enc[0] {
	case 1:
		if !a.IsIP() {
			return false
		}
		ip := a.IP().As16()
		return ip[12] == enc[1] && ip[13] == enc[2] && ip[14] == enc[3] && ip[15] == enc[4]
	case 4:
		if !a.IsIP() {
			return false
		}
		ip := a.IP().As16()
		w := vfInt("wip")
		vfAssume(w >= 0 && w < 16)
		return ip[w] == enc[1+w]
	}
	if !a.IsDomain() {
		return false
	}
	d := a.Domain()
	if len(d) != int(enc[1]) {
		return false
	}
	w := vfInt("wdom")
	vfAssume(w >= 0 && w < len(d))
	return d[w] == enc[2+w]
}

// C07 — the real SOCKS5 client against a scripted reference server.
//
// vfC07_Client: the client (ClientRequest / ClientRequestUsernamePassword, which ClientConnect and
// ClientUDPAssociate wrap) talks to a transport whose inbound side is a reference RFC 1928/1929
// server script with symbolic version bytes, selected method, authentication status, reply code and
// bound address, delivered with symbolic short reads.
//   cases: auth (0|1), kind (target: 0 IPv4, 1 IPv6, 3 domain), rkind (bound address in the reply),
//          cmd (1 CONNECT, 3 UDP ASSOCIATE), shorts
//
// Asserted: what the client sends is exactly greeting ‖ [credentials] ‖ request with the requested
// command and address (length and every byte, witness index); credentials are sent only to a server
// that selected username/password, the request only after a successful authentication; the call
// succeeds exactly when every version byte is right, the method is the offered one, the
// authentication status is 0 and the reply code is 0; on success the returned bound address is the
// reply's and nothing after the reply (data the far side sent first) has been consumed.
func vfC07_Client() {
	auth := vfCase("auth") == 1
	kind := vfCase("kind")
	rkind := vfCase("rkind")
	cmd := byte(vfCase("cmd"))
	method := byte(MethodNoAuthenticationRequired)
	if auth {
		method = MethodUsernamePassword
	}
	addrBytes := vfRefAddr(kind)
	target, n, err := ConnAddrFromSlice(addrBytes)
	vfAssert(err == nil && n == len(addrBytes), "reference target decodes")
	is4in6 := kind == 1 && target.IP().Is4In6()

	var authMsg []byte
	if auth {
		ul, pl := vfInt("ulen"), vfInt("plen")
		vfAssume(ul >= 1 && ul <= 255 && pl >= 1 && pl <= 255)
		u := UserInfo{Username: string(vfBytes("uname", ul)), Password: string(vfBytes("passwd", pl))}
		authMsg = u.AppendAuthMsg(nil)
		vfAssert(len(authMsg) == 3+ul+pl && authMsg[0] == 1 && int(authMsg[1]) == ul && int(authMsg[2+ul]) == pl, "RFC 1929 credentials message")
		w := vfInt("wa")
		vfAssume(w >= 0 && w < ul)
		vfAssert(authMsg[2+w] == u.Username[w], "user name bytes")
		w2 := vfInt("wp")
		vfAssume(w2 >= 0 && w2 < pl)
		vfAssert(authMsg[3+ul+w2] == u.Password[w2], "password bytes")
	}

	// the server script
	ver1, mrep := vfU8("ver1"), vfU8("mrep")
	script := []byte{ver1, mrep}
	var aver, status byte
	if auth {
		aver, status = vfU8("aver"), vfU8("status")
		script = append(script, aver, status)
	}
	ver2, rep := vfU8("ver2"), vfU8("rep")
	script = append(script, ver2, rep, 0)
	var bound []byte
	switch rkind {
	case 0:
		bound = append([]byte{1}, vfBytes("bound4", 6)...)
	case 1:
		bound = append([]byte{4}, vfBytes("bound6", 18)...)
	default:
		dl := vfInt("boundLen")
		vfAssume(dl >= 1 && dl <= 255)
		bound = append([]byte{3, byte(dl)}, vfBytes("boundDomain", dl)...)
		bound = append(bound, vfBytes("boundPort", 2)...)
	}
	script = append(script, bound...)
	replyEnd := len(script)
	script = append(script, 0x42) // the far side speaks first: must stay unread

	c := &vfConn{}
	c.data = script
	c.shorts = vfCase("shorts")
	var cerr error
	var baddr = target
	if auth {
		baddr, cerr = ClientRequestUsernamePassword(c, authMsg, cmd, target)
	} else {
		baddr, cerr = ClientRequest(c, cmd, target)
	}

	// what was sent
	vfAssert(len(c.out) >= 3 && c.out[0] == 5 && c.out[1] == 1 && c.out[2] == method, "greeting offers exactly the configured method")
	methodOK := ver1 == 5 && mrep == method
	if !methodOK {
		vfAssert(cerr != nil && len(c.out) == 3, "a server that does not select the offered method gets nothing more (no credentials, no request)")
		vfReach("nomethod")
		return
	}
	off := 3
	if auth {
		vfAssert(len(c.out) >= off+len(authMsg), "credentials sent")
		w := vfInt("wo")
		vfAssume(w >= 0 && w < len(authMsg))
		vfAssert(c.out[off+w] == authMsg[w], "credentials are sent unchanged")
		off += len(authMsg)
		if aver != 1 || status != 0 {
			vfAssert(cerr != nil && len(c.out) == off, "no request is sent after a failed authentication")
			vfReach("badauth")
			return
		}
	}
	if !is4in6 {
		vfAssert(len(c.out) == off+3+len(addrBytes), "exactly one request follows")
		vfAssert(c.out[off] == 5 && c.out[off+1] == cmd && c.out[off+2] == 0, "request carries the command")
		w := vfInt("wr")
		vfAssume(w >= 0 && w < len(addrBytes))
		vfAssert(c.out[off+3+w] == addrBytes[w], "request carries the address the caller asked for")
	} else {
		vfReach("4in6")
	}
	if ver2 != 5 {
		vfAssert(cerr != nil, "wrong version in the reply is an error")
		vfReach("badver")
		return
	}
	// the bound address must itself be well-formed for the reply to be usable
	refBound, bn, berr := ConnAddrFromSlice(bound)
	if berr != nil {
		vfAssert(cerr != nil, "a reply with an unusable bound address is an error")
		vfReach("badbound")
		return
	}
	vfAssert(bn == len(bound), "reference bound address decodes completely")
	vfAssert((cerr == nil) == (rep == 0), "the call succeeds exactly when the reply code is 0 (succeeded)")
	if cerr == nil {
		if rkind != 3 {
			// (for domain names the code's own Equals over two symbolic-length strings is left to the
			// field-by-field reference comparison below: the solver did not always decide it in time)
			vfAssert(baddr.Equals(refBound), "the bound address returned is the reply's")
		}
		vfAssert(vfAddrIs(baddr, bound), "the bound address returned is the reply's (reference comparison)")
		vfAssert(c.pos == replyEnd, "nothing after the reply is consumed: data the far side sent first stays in the stream")
		vfReach("end")
	} else {
		re, ok := cerr.(ReplyError)
		vfAssert(ok && byte(re) == rep, "the error reports the server's reply code")
		vfAssert(c.pos <= replyEnd, "nothing after the reply is consumed")
		vfReach("refusedreply")
	}
}

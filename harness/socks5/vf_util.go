package socks5

import "io"

// vfReader is a byte stream delivered in arbitrary fragments: each Read returns a symbolic number
// of bytes between 1 and min(len(p), available); after the data it returns io.EOF.
type vfReader struct {
	data  []byte
	pos   int
	reads int
	frags int // after this many short reads every Read returns all it can (0 = 3)
}

func (r *vfReader) Read(p []byte) (int, error) {
	r.reads++
	if len(p) == 0 {
		return 0, nil
	}
	avail := len(r.data) - r.pos
	if avail <= 0 {
		return 0, io.EOF
	}
	mx := min(avail, len(p))
	if r.frags == 0 {
		r.frags = 3
	}
	if r.reads > r.frags {
		copy(p[:mx], r.data[r.pos:r.pos+mx])
		r.pos += mx
		return mx, nil
	}
	n := vfInt("chunk")
	if vfSymbolic() {
		vfAssume(n >= 1 && n <= mx)
	} else if n < 1 || n > mx {
		n = mx
	}
	copy(p[:n], r.data[r.pos:r.pos+n])
	r.pos += n
	return n, nil
}

// vfWriter collects what is written.
type vfWriter struct {
	buf []byte
}

func (w *vfWriter) Write(p []byte) (int, error) {
	w.buf = append(w.buf, p...)
	return len(p), nil
}

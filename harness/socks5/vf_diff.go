package socks5

// Differential driver (translator validation): SOCKS address parsing and re-encoding on random
// bytes biased towards valid address types.
func vfDiff_Addr() {
	n := int(vfU8("len") % 40)
	b := vfBytes("buf", n)
	if n > 0 {
		switch vfU8("atyp") % 5 {
		case 0:
			b[0] = AtypIPv4
		case 1:
			b[0] = AtypIPv6
		case 2:
			b[0] = AtypDomainName
			if n > 1 {
				b[1] = vfU8("dlen") % 12
				for i := 2; i < n && i < 2+int(b[1]); i++ {
					b[i] = 'a' + b[i]%26
				}
			}
		}
	}
	addr, k, err := ConnAddrFromSlice(b)
	vfObserve("conn.err", vfDiffB(err != nil))
	if err == nil {
		vfObserve("conn.k", uint64(k))
		vfObserve("conn.port", uint64(addr.Port()))
		vfObserve("conn.isip", vfDiffB(addr.IsIP()))
		out := make([]byte, MaxAddrLen)
		m := WriteAddrFromConnAddr(out, addr)
		vfObserve("conn.m", uint64(m))
		for i := 0; i < m; i++ {
			vfObserve("conn.out", uint64(out[i]))
		}
		vfObserve("conn.len", uint64(LengthOfAddrFromConnAddr(addr)))
	}
	ap, k2, err := AddrPortFromSlice(b)
	vfObserve("ap.err", vfDiffB(err != nil))
	if err == nil {
		vfObserve("ap.k", uint64(k2))
		vfObserve("ap.port", uint64(ap.Port()))
		vfObserve("ap.is4", vfDiffB(ap.Addr().Is4()))
		out := make([]byte, MaxAddrLen)
		m := WriteAddrFromAddrPort(out, ap)
		for i := 0; i < m; i++ {
			vfObserve("ap.out", uint64(out[i]))
		}
	}
}

func vfDiffB(b bool) uint64 {
	if b {
		return 1
	}
	return 0
}

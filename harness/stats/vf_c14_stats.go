package stats

// C14 — traffic statistics neither lose nor invent traffic and charge the right user.

var vfUsers = []string{"", "alice", "bob"}

type vfRef struct {
	t [3]Traffic // per user index
}

func (r *vfRef) total() (t Traffic) {
	for i := range r.t {
		t.Add(r.t[i])
	}
	return
}

func vfTrafficEq(a, b Traffic) bool {
	return vfAnd(vfAnd(a.DownlinkPackets == b.DownlinkPackets, a.DownlinkBytes == b.DownlinkBytes),
		vfAnd(vfAnd(a.UplinkPackets == b.UplinkPackets, a.UplinkBytes == b.UplinkBytes),
			vfAnd(a.TCPSessions == b.TCPSessions, a.UDPSessions == b.UDPSessions)))
}

func vfCheckSnapshot(s Server, ref *vfRef, seen [3]bool) {
	vfAssert(vfTrafficEq(s.Traffic, ref.total()), "server totals equal the sum of all recorded sessions")
	n := 0
	for u := 1; u < 3; u++ {
		if !seen[u] {
			continue
		}
		n++
		found := false
		for _, us := range s.Users {
			if us.Name == vfUsers[u] {
				vfAssert(!found, "a user is listed once")
				found = true
				vfAssert(vfTrafficEq(us.Traffic, ref.t[u]), "each user's figures equal the traffic of that user's sessions")
			}
		}
		vfAssert(found, "every user that recorded traffic is listed")
	}
	vfAssert(len(s.Users) == n, "no users are invented")
	for i := 1; i < len(s.Users); i++ {
		vfAssert(s.Users[i-1].Name < s.Users[i].Name, "users are sorted by name")
	}
}

// vfC14_Sequential: a script of operations (case "script": digits 1..5 = TCP session, UDP
// downlink, UDP uplink, Snapshot, SnapshotAndReset) with symbolic amounts and users (forked
// over {anonymous, alice, bob}).
func vfC14_Sequential() {
	script := vfCase("script")
	c := NewServerCollector()
	var ref vfRef
	var seen [3]bool
	var ops []int
	for s := script; s > 0; s /= 10 {
		ops = append([]int{s % 10}, ops...)
	}
	for _, op := range ops {
		switch op {
		case 1, 2, 3:
			u := int(vfConcretize(vfU64("user"), 0, 2))
			a, b := vfU64("a"), vfU64("b")
			seen[u] = true
			switch op {
			case 1:
				c.CollectTCPSession(vfUsers[u], a, b)
				ref.t[u].DownlinkBytes += a
				ref.t[u].UplinkBytes += b
				ref.t[u].TCPSessions++
			case 2:
				c.CollectUDPSessionDownlink(vfUsers[u], a, b)
				ref.t[u].DownlinkPackets += a
				ref.t[u].DownlinkBytes += b
				ref.t[u].UDPSessions++
			case 3:
				c.CollectUDPSessionUplink(vfUsers[u], a, b)
				ref.t[u].UplinkPackets += a
				ref.t[u].UplinkBytes += b
			}
		case 4:
			vfCheckSnapshot(c.Snapshot(), &ref, seen)
		case 5:
			vfCheckSnapshot(c.SnapshotAndReset(), &ref, seen)
			ref = vfRef{}
		}
	}
	vfCheckSnapshot(c.Snapshot(), &ref, seen)
	vfReach("end")
}

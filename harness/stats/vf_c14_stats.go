package stats

// C14 — traffic statistics neither lose nor invent traffic and charge the right user.

var vfUsers = []string{"", "alice", "bob"}

type vfRef struct {
	t [3]Traffic // per user index
}

func (r *vfRef) total() (t Traffic) {
	for i := range r.t {
		t.Add(r.t[i])
	}
	return
}

func vfTrafficEq(a, b Traffic) bool {
	return vfAnd(vfAnd(a.DownlinkPackets == b.DownlinkPackets, a.DownlinkBytes == b.DownlinkBytes),
		vfAnd(vfAnd(a.UplinkPackets == b.UplinkPackets, a.UplinkBytes == b.UplinkBytes),
			vfAnd(a.TCPSessions == b.TCPSessions, a.UDPSessions == b.UDPSessions)))
}

func vfCheckSnapshot(s Server, ref *vfRef, seen [3]bool) {
	vfAssert(vfTrafficEq(s.Traffic, ref.total()), "server totals equal the sum of all recorded sessions")
	n := 0
	for u := 1; u < 3; u++ {
		if !seen[u] {
			continue
		}
		n++
		found := false
		for _, us := range s.Users {
			if us.Name == vfUsers[u] {
				vfAssert(!found, "a user is listed once")
				found = true
				vfAssert(vfTrafficEq(us.Traffic, ref.t[u]), "each user's figures equal the traffic of that user's sessions")
			}
		}
		vfAssert(found, "every user that recorded traffic is listed")
	}
	vfAssert(len(s.Users) == n, "no users are invented")
	for i := 1; i < len(s.Users); i++ {
		vfAssert(s.Users[i-1].Name < s.Users[i].Name, "users are sorted by name")
	}
}

// vfC14_Sequential: a script of operations (case "script": digits 1..5 = TCP session, UDP
// downlink, UDP uplink, Snapshot, SnapshotAndReset) with symbolic amounts and users (forked
// over {anonymous, alice, bob}).
func vfC14_Sequential() {
	script := vfCase("script")
	c := NewServerCollector()
	var ref vfRef
	var seen [3]bool
	var ops []int
	for s := script; s > 0; s /= 10 {
		ops = append([]int{s % 10}, ops...)
	}
	for _, op := range ops {
		switch op {
		case 1, 2, 3:
			u := int(vfConcretize(vfU64("user"), 0, 2))
			a, b := vfU64("a"), vfU64("b")
			seen[u] = true
			switch op {
			case 1:
				c.CollectTCPSession(vfUsers[u], a, b)
				ref.t[u].DownlinkBytes += a
				ref.t[u].UplinkBytes += b
				ref.t[u].TCPSessions++
			case 2:
				c.CollectUDPSessionDownlink(vfUsers[u], a, b)
				ref.t[u].DownlinkPackets += a
				ref.t[u].DownlinkBytes += b
				ref.t[u].UDPSessions++
			case 3:
				c.CollectUDPSessionUplink(vfUsers[u], a, b)
				ref.t[u].UplinkPackets += a
				ref.t[u].UplinkBytes += b
			}
		case 4:
			vfCheckSnapshot(c.Snapshot(), &ref, seen)
		case 5:
			vfCheckSnapshot(c.SnapshotAndReset(), &ref, seen)
			ref = vfRef{}
		}
	}
	vfCheckSnapshot(c.Snapshot(), &ref, seen)
	vfReach("end")
}

// vfC14_Concurrent: two operations in two goroutines, every interleaving at the granularity of
// lock operations and atomic operations explored (bounded number of preemptions).
//   mode 0: two Collect calls for the same, not yet seen user
//   mode 1: Collect (known user) in parallel with SnapshotAndReset; conservation across the reset
//   mode 2: Collect (new user) in parallel with SnapshotAndReset
func vfC14_Concurrent() {
	mode := vfCase("mode")
	c := NewServerCollector()
	a1, a2, b1, b2 := vfU64("a1"), vfU64("a2"), vfU64("b1"), vfU64("b2")
	if mode == 1 {
		c.CollectTCPSession("alice", 0, 0)
	}
	var mid Server
	vfSchedule(vfCase("preempt"))
	vfGo("t1", func() { c.CollectTCPSession("alice", a1, a2) })
	if mode == 0 {
		vfGo("t2", func() { c.CollectUDPSessionDownlink("alice", b1, b2) })
	} else {
		vfGo("t2", func() { mid = c.SnapshotAndReset() })
	}
	vfJoin()
	fin := c.Snapshot()
	var want Traffic
	want.DownlinkBytes, want.UplinkBytes, want.TCPSessions = a1, a2, 1
	if mode == 0 {
		want.DownlinkPackets, want.DownlinkBytes, want.UDPSessions = b1, a1+b2, 1
	}
	if mode == 1 {
		want.TCPSessions = 2
	}
	got := fin.Traffic
	got.Add(mid.Traffic)
	vfAssert(vfTrafficEq(got, want), "snapshots taken while recording continues never drop or double-count traffic")
	// the user's own figures
	var u Traffic
	for _, x := range mid.Users {
		if x.Name == "alice" {
			u.Add(x.Traffic)
		}
	}
	n := 0
	for _, x := range fin.Users {
		if x.Name == "alice" {
			u.Add(x.Traffic)
			n++
		}
	}
	vfAssert(n == 1, "the user is listed once")
	vfAssert(vfTrafficEq(u, want), "a user first seen mid-run is not lost; per-user figures are conserved")
	vfReach("end")
}

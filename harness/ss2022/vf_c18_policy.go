package ss2022

// C18 — policy fields: an omitted field (zero value), an explicitly empty string and the
// documented default name must all denote the same policy function.

func vfRejectID(p RejectPolicy) uint64   { return vfFuncID(p) }
func vfPaddingID(p PaddingPolicy) uint64 { return vfFuncID(p) }

func vfC18_PolicyDefaults() {
	// reject policy: documented default is ForceReset (README, ParseRejectPolicy(""))
	var omitted RejectPolicyField
	var empty RejectPolicyField
	vfAssert(empty.UnmarshalText([]byte("")) == nil, "empty reject policy name accepted")
	explicit, err := NewRejectPolicyField("ForceReset")
	vfAssert(err == nil, "documented default reject policy name accepted")
	parsed, err2 := ParseRejectPolicy("")
	vfAssert(err2 == nil, "ParseRejectPolicy accepts the empty name")
	want := vfRejectID(parsed)
	vfAssert(vfRejectID(explicit.Policy()) == want, "explicit default equals parse of empty name")
	vfAssert(vfRejectID(empty.Policy()) == want, "explicitly empty reject policy equals the documented default")
	vfKnown("C18-rejectPolicy-omitted", true)
	vfAssert(vfRejectID(omitted.Policy()) == want, "omitted reject policy behaves as the documented default (same as explicit empty)")
	vfAssert(omitted.Name() == explicit.Name() || omitted.Name() == "", "omitted reject policy reports the default's name")

	var pOmitted, pEmpty PaddingPolicyField
	vfAssert(pEmpty.UnmarshalText([]byte("")) == nil, "empty padding policy name accepted")
	pExplicit, err3 := NewPaddingPolicyField("PadPlainDNS")
	vfAssert(err3 == nil, "documented default padding policy name accepted")
	pw := vfPaddingID(pExplicit.Policy())
	vfAssert(vfPaddingID(pOmitted.Policy()) == pw, "omitted padding policy is the documented default")
	vfAssert(vfPaddingID(pEmpty.Policy()) == pw, "explicitly empty padding policy is the documented default")
	_, err4 := NewRejectPolicyField("nonsense")
	_, err5 := NewPaddingPolicyField("nonsense")
	vfAssert(err4 != nil && err5 != nil, "unknown policy names are refused")
	vfReach("end")
}

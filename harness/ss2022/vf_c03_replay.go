package ss2022

import (
	"encoding/binary"
	"time"
)

// C03 — a handshake is accepted at most once while its timestamp is acceptable.

// vfAccept mirrors the order of checks in StreamServer.HandleStream after authentication:
// TryContains (no add), timestamp validation, then Add.  The pool and the validators are the
// real ones.
func vfAccept(pool *SaltPool, now time.Time, salt [32]byte, ts int64) bool {
	if pool.TryContains(salt) {
		return false
	}
	var hdr [TCPRequestFixedLengthHeaderLength]byte
	hdr[0] = HeaderTypeClientStream
	binary.BigEndian.PutUint64(hdr[1:], uint64(ts))
	if _, err := ParseTCPRequestFixedLengthHeader(hdr[:], now); err != nil {
		return false
	}
	return pool.Add(now, salt)
}

func vfSalt(name string) (s [32]byte) {
	copy(s[:], vfBytes(name, 32))
	return
}

// vfC03_History: K steps; each advances the clock by a symbolic amount (ns resolution) and
// presents either request A (fixed salt and timestamp) or a fresh request.
func vfC03_History() {
	k := vfCase("K")
	var pool SaltPool
	sec := vfI64("sec0")
	nsec := vfI64("nsec0")
	vfAssume(sec >= 946684800 && sec <= 4102444800-1000 && nsec >= 0 && nsec < 1000000000)
	saltA := vfSalt("saltA")
	tsA := vfI64("tsA")
	vfAssume(tsA >= 0 && tsA < 1<<40) // keeps the harness's own comparisons free of int64 wrap-around
	acceptedA := false
	freshSeen := false
	for i := 0; i < k; i++ {
		ds, dn := vfI64("dSec"), vfI64("dNsec")
		vfAssume(ds >= 0 && ds <= 130 && dn >= 0 && dn < 1000000000)
		sec += ds
		nsec += dn
		if nsec >= 1000000000 {
			nsec -= 1000000000
			sec++
		}
		vfClock(sec, nsec)
		now := time.Now()
		if vfBool("presentA") {
			ok := vfAccept(&pool, now, saltA, tsA)
			vfAssert(vfImp(ok, tsA-sec <= 30 && sec-tsA <= 30), "accepted only with a timestamp within 30 seconds of the server clock")
			vfAssert(!(ok && acceptedA), "the same request is never accepted a second time")
			acceptedA = acceptedA || ok
		} else {
			salt := vfSalt("saltFresh")
			vfAssume(salt != saltA)
			ts := vfI64("tsFresh")
			vfAssume(ts >= 0 && ts < 1<<40)
			ok := vfAccept(&pool, now, salt, ts)
			vfAssert(vfImp(ok, ts-sec <= 30 && sec-ts <= 30), "accepted only with a timestamp within 30 seconds of the server clock")
			// fresh salts of different steps may coincide (the solver may choose them equal), so
			// the liveness assertion is made for the first fresh request of a history only
			if !freshSeen && ts-sec <= 29 && sec-ts <= 29 {
				vfAssert(ok, "a fresh request with a timestamp well within the window is accepted")
			}
			freshSeen = true
		}
	}
	vfReach("end")
}

// vfC03_Forged: a request that fails validation (bad timestamp) leaves nothing behind: the same
// salt presented later with a good timestamp is accepted.
func vfC03_Forged() {
	var pool SaltPool
	sec, nsec := vfI64("sec0"), vfI64("nsec0")
	vfAssume(sec >= 946684800 && sec <= 4102444800 && nsec >= 0 && nsec < 1000000000)
	vfClock(sec, nsec)
	salt := vfSalt("salt")
	badTs := vfI64("badTs")
	vfAssume(badTs >= 0 && badTs < 1<<40)
	vfAssume(badTs-sec > 30 || sec-badTs > 30)
	vfAssert(!vfAccept(&pool, time.Now(), salt, badTs), "stale timestamp refused")
	goodTs := vfI64("goodTs")
	vfAssume(goodTs >= 0 && goodTs < 1<<40)
	vfAssume(goodTs-sec <= 29 && sec-goodTs <= 29)
	vfAssert(vfAccept(&pool, time.Now(), salt, goodTs), "a refused request leaves nothing behind: the genuine one is accepted")
	vfAssert(!vfAccept(&pool, time.Now(), salt, goodTs), "immediate replay refused")
	vfReach("end")
}

// vfC03_Concurrent: the same request presented by two connections at once (every interleaving at
// lock-operation granularity, bounded preemptions), possibly while a third, different request is
// being added: at most one copy is accepted.
func vfC03_Concurrent() {
	var pool SaltPool
	sec := vfI64("sec0")
	vfAssume(sec >= 946684800 && sec <= 4000000000)
	vfClock(sec, 0)
	now := time.Now()
	salt := vfSalt("salt")
	other := vfSalt("other")
	vfAssume(salt != other)
	ts := sec
	if vfCase("prefill") == 1 {
		vfAssert(vfAccept(&pool, now, other, ts), "unrelated request accepted")
	}
	var ok1, ok2 bool
	vfSchedule(vfCase("preempt"))
	vfGo("c1", func() { ok1 = vfAccept(&pool, now, salt, ts) })
	vfGo("c2", func() { ok2 = vfAccept(&pool, now, salt, ts) })
	vfJoin()
	vfAssert(!(ok1 && ok2), "concurrent copies of one request: at most one is accepted")
	vfAssert(ok1 || ok2, "one of the copies is accepted")
	vfReach("end")
}

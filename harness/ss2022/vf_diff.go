package ss2022

import (
	"time"
)

// Differential drivers (translator validation, `vsym difftest`): concrete pseudo-random inputs, the
// real functions, every result reported through vfObserve.  The executor's concrete run and the
// native run must report the same values.

func vfB2U(b bool) uint64 {
	if b {
		return 1
	}
	return 0
}

// vfDiff_Filter: a random history of sliding-window filter operations.
func vfDiff_Filter() {
	sizes := []uint64{1, 2, 63, 64, 65, 128, 1000}
	f := NewSlidingWindowFilter(sizes[vfU8("size")%7])
	base := vfU64("base") % (1 << 40)
	for i := 0; i < 24; i++ {
		c := base + vfU64("delta")%2100
		switch vfU8("op") % 3 {
		case 0:
			vfObserve("add", vfB2U(f.Add(c)))
		case 1:
			ok := f.IsOk(c)
			vfObserve("isok", vfB2U(ok))
			if ok {
				f.MustAdd(c)
			}
		default:
			vfObserve("isok2", vfB2U(f.IsOk(c)))
		}
	}
	vfObserve("size", f.Size())
}

// vfDiff_Headers: request/response header encoders against their parsers, timestamps included.
func vfDiff_Headers() {
	now := time.Unix(int64(1700000000+vfU32("now")%100000), 0)
	skew := int64(vfU8("skew")) - 128
	b := make([]byte, TCPRequestFixedLengthHeaderLength)
	length := int(vfU16("length"))
	PutTCPRequestFixedLengthHeader(b, now.Add(time.Duration(skew)*time.Second), length)
	if vfU8("corrupt")%4 == 0 {
		b[vfU8("at")%byte(len(b))] ^= 1 << (vfU8("bit") % 8)
	}
	n, err := ParseTCPRequestFixedLengthHeader(b, now)
	vfObserve("req.err", vfB2U(err != nil))
	if err == nil {
		vfObserve("req.len", uint64(n))
	}
	salt := vfBytes("salt", 16)
	rb := make([]byte, 1+8+16+2)
	PutTCPResponseHeader(rb, now.Add(time.Duration(skew)*time.Second), salt, length)
	if vfU8("corrupt2")%4 == 0 {
		rb[vfU8("at2")%byte(len(rb))] ^= 1 << (vfU8("bit2") % 8)
	}
	n, err = ParseTCPResponseHeader(rb, now, salt)
	vfObserve("resp.err", vfB2U(err != nil))
	if err == nil {
		vfObserve("resp.len", uint64(n))
	}
	nonce := vfBytes("nonce", 12)
	for i := 0; i < int(vfU8("incs")%5); i++ {
		increment(nonce)
	}
	for i := 0; i < 12; i++ {
		vfObserve("nonce", uint64(nonce[i]))
	}
}

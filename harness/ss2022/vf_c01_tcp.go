package ss2022

import (
	"context"

	"github.com/database64128/shadowsocks-go/conn"
	"github.com/database64128/shadowsocks-go/netio"
	"go.uber.org/zap"
)

// vfDialer is the inner stream client of the SS2022 client: it hands out a vfConn and records
// what the client sent with the dial.
type vfDialer struct {
	c       *vfConn
	addr    conn.Addr
	payload []byte
	dials   int
}

func (d *vfDialer) NewStreamDialer() (netio.StreamDialer, netio.StreamDialerInfo) {
	return d, netio.StreamDialerInfo{Name: "vf", NativeInitialPayload: true}
}

func (d *vfDialer) DialStream(ctx context.Context, addr conn.Addr, payload []byte) (netio.Conn, error) {
	d.dials++
	d.addr = addr
	d.c = &vfConn{}
	d.c.out = append(d.c.out, payload...)
	return d.c, nil
}

// vfTarget builds the dial target of the given kind with symbolic contents.
// kind 0: IPv4, 1: IPv6 (not 4in6), 2: IPv4-mapped IPv6, 3: domain of symbolic length 1..255
func vfTarget(kind int) conn.Addr {
	port := vfU16("port")
	switch kind {
	case 0:
		var a [4]byte
		copy(a[:], vfBytes("ip4", 4))
		return conn.AddrFromIPAndPort(vfAddrFrom4(a), port)
	case 1, 2:
		var a [16]byte
		copy(a[:], vfBytes("ip6", 16))
		ip := vfAddrFrom16(a)
		vfAssume(ip.Is4In6() == (kind == 2))
		return conn.AddrFromIPAndPort(ip, port)
	default:
		dl := vfInt("domainLen")
		vfAssume(dl >= 1 && dl <= 255)
		d := vfBytes("domain", dl)
		addr, err := conn.AddrFromDomainPort(string(d), port)
		vfAssert(err == nil, "domain of length 1..255 accepted")
		return addr
	}
}

// vfSameAddr compares two addresses modulo the documented IPv4-mapped normalisation, with a
// witness index for domain bytes.
func vfSameAddr(got, want conn.Addr) bool {
	if got.IsIP() != want.IsIP() || got.Port() != want.Port() {
		return false
	}
	if got.IsIP() {
		return got.IP().Unmap() == want.IP().Unmap()
	}
	g, w := got.Domain(), want.Domain()
	if len(g) != len(w) {
		return false
	}
	i := vfInt("domainWitness")
	vfAssume(i >= 0 && i < len(g))
	return g[i] == w[i]
}

// vfC01_Request: a client dials target T with initial payload P; the server must observe exactly
// T, and P must arrive as the first bytes of the client-to-server stream (inside the request as
// far as it fits, the rest through the tunnel), for every payload length, address kind, padding
// choice and transport fragmentation.
//
// cases: key (16|32), kind (0..3), seg (0|1 allowSegmentedFixedLengthHeader), ursp (request prefix length)
func vfC01_Request() {
	keyLen := vfCase("key")
	kind := vfCase("kind")
	seg := vfCase("seg") == 1
	urspLen := vfCase("ursp")
	eih := vfCase("eih")
	psk := vfBytes("psk", keyLen)
	ursp := vfBytes("ursp", urspLen)
	target := vfTarget(kind)
	L := vfInt("payloadLen")
	vfAssume(L >= 0 && L <= 140000)
	payload := vfBytes("payload", L)

	// eih = 1: the client is one user (uPSK = psk) of a multi-user server (iPSK); the request
	// carries one identity header
	var iPSKs [][]byte
	if eih == 1 {
		iPSKs = [][]byte{vfBytes("ipsk", keyLen)}
	}
	ccfg, err := NewClientCipherConfig(psk, iPSKs, false)
	vfAssert(err == nil, "client cipher config")
	d := &vfDialer{}
	client := (&StreamClientConfig{Name: "c", InnerClient: d, AllowSegmentedFixedLengthHeader: seg, CipherConfig: ccfg, UnsafeRequestStreamPrefix: ursp}).NewStreamClient()
	cc, err := client.DialStream(context.Background(), target, payload)
	vfAssert(err == nil && cc != nil, "dial succeeds")
	vfAssert(d.dials == 1, "inner client dialed exactly once")
	wire := d.c.out

	var server *StreamServer
	if eih == 1 {
		icfg, err := NewServerIdentityCipherConfig(iPSKs[0], false)
		vfAssert(err == nil, "identity cipher config")
		server = (&StreamServerConfig{AllowSegmentedFixedLengthHeader: seg, IdentityCipherConfig: icfg, UnsafeRequestStreamPrefix: ursp}).NewStreamServer()
		ucfg, err := NewServerUserCipherConfig("alice", psk, false)
		vfAssert(err == nil, "user cipher config")
		server.ReplaceUserLookupMap(UserLookupMap{PSKHash(psk): ucfg})
	} else {
		ucfg, err := NewUserCipherConfig(psk, false)
		vfAssert(err == nil, "server cipher config")
		server = (&StreamServerConfig{AllowSegmentedFixedLengthHeader: seg, UserCipherConfig: ucfg, UnsafeRequestStreamPrefix: ursp}).NewStreamServer()
	}
	sc := &vfConn{}
	sc.data = wire
	sc.tag = "S"
	if seg {
		sc.frags = 2
	}
	req, err := server.HandleStream(sc, zap.NewNop())
	vfAssert(err == nil, "genuine request accepted")
	vfAssert(vfSameAddr(req.Addr, target), "server observes the dialed target")
	if eih == 1 {
		vfAssert(req.Username == "alice", "the server reports the owning user's name")
	} else {
		vfAssert(req.Username == "", "single-user server reports no user name")
	}
	addrLen := 7
	switch kind {
	case 1:
		addrLen = 19
	case 3:
		addrLen = 2 + len(target.Domain()) + 2
	}
	room := 0xFFFF - addrLen - 2
	inReq := min(L, room)
	vfAssert(len(req.Payload) == inReq, "initial payload is inside the request as far as it fits")
	w := vfInt("w")
	vfAssume(w >= 0 && w < L)
	if w < inReq {
		vfAssert(req.Payload[w] == payload[w], "request payload bytes equal the dialed payload")
		vfReach("inRequest")
	} else {
		// the excess arrives as ordinary tunnel data
		pc, err := req.Proceed()
		vfAssert(err == nil, "proceed")
		buf := make([]byte, 140000)
		got := 0
		for k := 0; k < 4 && got <= w-inReq; k++ {
			n, err := pc.Read(buf[got:])
			vfAssert(err == nil && n > 0, "excess payload readable through the tunnel")
			got += n
		}
		vfAssert(got > w-inReq, "excess payload arrives within the expected chunks")
		vfAssert(buf[w-inReq] == payload[w], "excess payload bytes arrive in order through the tunnel")
		vfReach("excess")
	}
	vfReach("end")
}

// vfHandshake runs a genuine handshake (no initial payload, fixed IPv4 target) and returns the
// client conn, the server conn and the two transports.
func vfHandshake(psk []byte, seg bool) (cc netio.Conn, sconn netio.Conn, ct, st *vfConn) {
	ccfg, err := NewClientCipherConfig(psk, nil, false)
	vfAssert(err == nil, "client cipher config")
	d := &vfDialer{}
	client := (&StreamClientConfig{Name: "c", InnerClient: d, AllowSegmentedFixedLengthHeader: seg, CipherConfig: ccfg}).NewStreamClient()
	target := conn.AddrFromIPAndPort(vfAddrFrom4([4]byte{1, 2, 3, 4}), 443)
	cc, err = client.DialStream(context.Background(), target, nil)
	vfAssert(err == nil && cc != nil, "dial succeeds")
	ucfg, err := NewUserCipherConfig(psk, false)
	vfAssert(err == nil, "server cipher config")
	server := (&StreamServerConfig{AllowSegmentedFixedLengthHeader: seg, UserCipherConfig: ucfg}).NewStreamServer()
	st = &vfConn{}
	st.data = d.c.out
	st.tag = "S"
	req, err := server.HandleStream(st, zap.NewNop())
	vfAssert(err == nil, "genuine request accepted")
	vfAssert(len(req.Payload) == 0, "no initial payload")
	sconn, err = req.Proceed()
	vfAssert(err == nil, "proceed")
	return cc, sconn, d.c, st
}

// vfC01_Tunnel: after the handshake, what one side writes (two writes of symbolic sizes, the first
// one carrying the response header when the server writes) is read by the other side exactly,
// in order, for symbolic read-buffer sizes and transport fragmentation; end-of-stream is reported
// only after all bytes.   cases: key (16|32), dir (0: server->client, 1: client->server), path
// (0: Write/Read, 1: writer side uses ReadFrom, 2: reader side uses WriteTo)
func vfC01_Tunnel() {
	keyLen := vfCase("key")
	dir := vfCase("dir")
	path := vfCase("path")
	psk := vfBytes("psk", keyLen)
	cc, sconn, ct, st := vfHandshake(psk, false)
	// two=0: one write of symbolic size; two=1: a small concrete first write, then a symbolic one
	n1, n2 := vfInt("n1"), 0
	if vfCase("two") == 1 {
		n1, n2 = 10, vfInt("n2")
		vfAssume(n2 >= 1 && n2 <= 70000)
	} else {
		vfAssume(n1 >= 1 && n1 <= 70000)
	}
	if path == 1 {
		// the reader-from path re-reads its source in a loop: kept to one chunk's worth of data
		vfAssume(n1 <= 3000 && n2 <= 3000)
	}
	b1, b2 := vfBytes("data1", n1), vfBytes("data2", n2)
	wr, rd := sconn, cc
	wt, rt := st, ct
	if dir == 1 {
		wr, rd = cc, sconn
		wt, rt = ct, st
	}
	wt.out = nil
	if path == 1 {
		// the source may report end-of-stream together with its last bytes or on a separate read
		src := &vfReader{data: append(append([]byte{}, b1...), b2...), frags: 1, tag: "W", eofWithData: vfBool("eofWithData")}
		n, err := wr.(interface {
			ReadFrom(r vfIOReader) (int64, error)
		}).ReadFrom(src)
		vfAssert(err == nil && n == int64(n1+n2), "ReadFrom consumed everything")
	} else {
		n, err := wr.Write(b1)
		vfAssert(err == nil && n == n1, "first write reports all bytes")
		if n2 > 0 {
			n, err = wr.Write(b2)
			vfAssert(err == nil && n == n2, "second write reports all bytes")
		}
	}
	// hand the ciphertext to the peer's transport
	rt.data = wt.out
	rt.pos = 0
	rt.reads = 0
	rt.frags = vfCase("frags")
	rt.tag = "R"
	total := n1 + n2
	w := vfInt("w")
	vfAssume(w >= 0 && w < total)
	var want byte
	if w < n1 {
		want = b1[w]
	} else {
		want = b2[w-n1]
	}
	if path == 2 {
		sink := &vfConn{}
		n, err := rd.(interface {
			WriteTo(w vfIOWriter) (int64, error)
		}).WriteTo(sink)
		vfAssert(err == nil, "WriteTo ends cleanly at end of stream")
		vfAssert(n == int64(total) && len(sink.out) == total, "WriteTo delivered every byte")
		vfAssert(sink.out[w] == want, "bytes arrive unchanged and in order")
		vfReach("end")
		return
	}
	buf := make([]byte, 140000)
	got := 0
	for k := 0; k < 4 && got < total; k++ {
		m := 70000
		if k == 0 {
			// the first read uses a buffer of symbolic size, later reads a large one
			m = vfInt("readBuf")
			vfAssume(m >= 1 && m <= 70000)
		}
		n, err := rd.Read(buf[got : got+m])
		vfAssert(err == nil && n > 0 && n <= m, "read returns data without error")
		got += n
		vfAssert(got <= total, "never more bytes than were written")
	}
	if got > w {
		vfAssert(buf[w] == want, "bytes arrive unchanged and in order")
		vfReach("byte")
	}
	if got == total {
		n, err := rd.Read(buf[:100])
		vfAssert(n == 0 && err == vfEOF, "end of stream only after all bytes")
		vfReach("eof")
	}
	vfReach("end")
}

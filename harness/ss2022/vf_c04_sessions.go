package ss2022

import (
	"net/netip"
	"time"
)

// C04 — client side: server-session switching.  K server packets, each from server session A or B
// with a symbolic packet ID, at symbolic times; every packet is genuinely packed by the real server
// packer of that session.  No (session, packet ID) is ever delivered twice; fresh packets of the
// current session are delivered; a second session change within a minute is refused.
func vfC04_ClientSessions() {
	k := vfCase("K")
	psk := vfBytes("psk", 16)
	ccfg, err := NewClientCipherConfig(psk, nil, true)
	vfAssert(err == nil, "client cipher config")
	ucfg, err := NewUserCipherConfig(psk, true)
	vfAssert(err == nil, "user cipher config")
	csid := vfU64("csid")
	u := &ShadowPacketClientUnpacker{csid: csid, filterSize: 64, cipherConfig: ccfg}
	var ssid [2]uint64
	ssid[0], ssid[1] = vfU64("ssidA"), vfU64("ssidB")
	vfAssume(ssid[0] != ssid[1])
	var packers [2]*ShadowPacketServerPacker
	for i := range packers {
		var salt [8]byte
		for j := 0; j < 8; j++ {
			salt[j] = byte(ssid[i] >> (56 - 8*j))
		}
		aead, err := ucfg.AEAD(salt[:])
		vfAssert(err == nil, "session cipher")
		packers[i] = &ShadowPacketServerPacker{ssid: ssid[i], csid: csid, aead: aead, block: ucfg.Block(), shouldPad: NoPadding}
	}
	sec := vfI64("sec0")
	vfAssume(sec >= 946684800 && sec <= 4000000000)
	from := netip.AddrPortFrom(vfAddrFrom4([4]byte{203, 0, 113, 9}), 53)
	server := netip.AddrPortFrom(vfAddrFrom4([4]byte{192, 0, 2, 1}), 8388)
	var accSess [6]int
	var accPid [6]uint64
	var acc [6]bool
	cur := -1         // current server session as the reference sees it
	var lastSwitch int64 = -1 << 40
	for i := 0; i < k; i++ {
		ds := vfI64("dSec")
		vfAssume(ds >= 0 && ds <= 70)
		sec += ds
		vfClock(sec, 0)
		s := int(vfConcretize(vfU64("sess"), 0, 1))
		pid := vfU64("pid")
		p := packers[s]
		p.spid = pid
		h := p.ServerPackerInfo().Headroom
		b := make([]byte, h.Front+4+h.Rear)
		copy(b[h.Front:], []byte{0xde, 0xad, 0xbe, 0xef})
		ps, pl, err := p.PackInPlace(b, from, h.Front, 4, 1400)
		vfAssert(err == nil, "server packs")
		_, s2, l2, err := u.UnpackInPlace(b, server, ps, pl)
		ok := err == nil
		if ok {
			vfAssert(l2 == 4 && b[s2] == 0xde && b[s2+3] == 0xef, "payload delivered intact")
		}
		seen := false
		for j := 0; j < i; j++ {
			seen = vfOr(seen, vfAnd(acc[j], vfAnd(accSess[j] == s, accPid[j] == pid)))
		}
		vfAssert(!(ok && seen), "a packet is never delivered a second time, also across a server session change")
		// liveness for the current session: a fresh packet newer than everything delivered is accepted
		if s == cur {
			newer := true
			for j := 0; j < i; j++ {
				newer = vfAnd(newer, vfImp(vfAnd(acc[j], accSess[j] == s), accPid[j] < pid))
			}
			vfAssert(vfImp(newer, ok), "a fresh packet of the current session, newer than all delivered ones, is accepted")
		}
		if ok && s != cur {
			// either the first session, a packet of the previous session, or a session change
			if cur != -1 && !vfC04sessionKnown(accSess[:i], acc[:i], s) {
				vfAssert(sec-lastSwitch >= 60, "a second server session change within a minute is refused")
			}
			if !vfC04sessionKnown(accSess[:i], acc[:i], s) {
				lastSwitch = sec
				cur = s
			}
		}
		acc[i], accSess[i], accPid[i] = ok, s, pid
	}
	_ = time.Second
	vfReach("end")
}

func vfC04sessionKnown(sess []int, acc []bool, s int) bool {
	for j := range sess {
		if acc[j] && sess[j] == s {
			return true
		}
	}
	return false
}

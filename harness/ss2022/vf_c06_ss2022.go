package ss2022

import (
	"crypto/cipher"
	"net/netip"

	"go.uber.org/zap"
)

// C06 / C04 — SS2022 entry points on hostile bytes.  The attacker may even hold the key
// (vfAttackerHasKey: an AEAD open may succeed with an arbitrary plaintext), so everything that is
// computed from decrypted headers is covered too.

type cipherAEAD = cipher.AEAD

// vfC06packet builds a hostile datagram of n bytes.  The 16-byte separate header is the block
// encryption of an ARBITRARY plaintext (AES is a permutation, so this loses no generality and
// the native replay can produce the same bytes); with key==true the body is an arbitrary
// plaintext genuinely sealed under the session key (a peer that holds the key), otherwise the
// body is arbitrary bytes.
func vfC06packet(n int, key bool, block cipher.Block, aead func(sid []byte) cipher.AEAD) []byte {
	pkt := make([]byte, n)
	if n < 16 {
		copy(pkt, vfBytes("short", n))
		return pkt
	}
	hdr := vfBytes("sepHeader", 16)
	block.Encrypt(pkt[:16], hdr)
	if !key || n < 32 {
		copy(pkt[16:], vfBytes("body", n-16))
		return pkt
	}
	body := vfBytes("plain", n-32)
	a := aead(hdr[:8])
	ct := a.Seal(nil, hdr[4:16], body, nil)
	copy(pkt[16:], ct)
	return pkt
}

// vfC06_UDPServerPacket: an arbitrary datagram into SessionInfo / NewUnpacker / UnpackInPlace
// (server side), with the packet placed in the buffer the way the relay does.  No panic; a
// successful unpack yields a payload inside the packet; a failing one leaves the replay filter
// exactly as it was (C04: dropped packets do not change which later packets are accepted).
func vfC06_UDPServerPacket() {
	psk := vfBytes("psk", 16)
	ucfg, err := NewUserCipherConfig(psk, true)
	vfAssert(err == nil, "cipher config")
	server := NewUDPServer(0, ucfg, ServerIdentityCipherConfig{}, PadPlainDNS)
	front := server.Info().UnpackerHeadroom.Front
	n := vfInt("len")
	vfAssume(n >= 0 && n <= 400)
	b := make([]byte, front+n+16)
	copy(b[front:], vfC06packet(n, vfCase("key") == 1, ucfg.Block(), func(sid []byte) cipherAEAD {
		a, err := ucfg.AEAD(sid)
		vfAssert(err == nil, "aead")
		return a
	}))
	pkt := b[front : front+n]
	csid, err := server.SessionInfo(pkt)
	if err != nil {
		vfReach("tooshort")
		return
	}
	up, _, err := server.NewUnpacker(pkt, csid)
	if err != nil {
		vfReach("nounpacker")
		return
	}
	u := up.(*ShadowPacketServerUnpacker)
	// an established session: arbitrary filter state
	hasFilter := vfBool("hasFilter")
	var last0, r0, r1 uint64
	if hasFilter {
		u.filter = NewSlidingWindowFilter(64)
		u.filter.last = vfU64("last")
		u.filter.ring[0], u.filter.ring[1] = uint(vfU64("ring0")), uint(vfU64("ring1"))
		last0, r0, r1 = u.filter.last, uint64(u.filter.ring[0]), uint64(u.filter.ring[1])
	}
	src := netip.AddrPortFrom(vfAddrFrom4([4]byte{198, 51, 100, 7}), 40000)
	ta, ps, pl, err := u.UnpackInPlace(b, src, front, n)
	if err != nil {
		if hasFilter {
			vfAssert(u.filter != nil && u.filter.last == last0 && uint64(u.filter.ring[0]) == r0 && uint64(u.filter.ring[1]) == r1, "a dropped packet leaves the replay filter unchanged")
		} else {
			vfAssert(u.filter == nil, "a dropped packet creates no replay filter")
		}
		vfReach("dropped")
		return
	}
	vfAssert(ta.IsValid(), "target address valid")
	vfAssert(ps >= front && pl >= 0 && ps+pl <= front+n, "payload lies inside the received packet")
	vfAssert(u.filter != nil, "filter exists after a delivered packet")
	vfReach("end")
}

// vfC06_UDPClientPacket: an arbitrary datagram into the client unpacker.
func vfC06_UDPClientPacket() {
	psk := vfBytes("psk", 16)
	ccfg, err := NewClientCipherConfig(psk, nil, true)
	vfAssert(err == nil, "cipher config")
	u := &ShadowPacketClientUnpacker{csid: vfU64("csid"), filterSize: 64, cipherConfig: ccfg}
	front := ShadowPacketServerMessageHeadroom.Front
	n := vfInt("len")
	vfAssume(n >= 0 && n <= 400)
	b := make([]byte, front+n+16)
	copy(b[front:], vfC06packet(n, vfCase("key") == 1, ccfg.Block(), func(sid []byte) cipherAEAD {
		a, err := ccfg.AEAD(sid)
		vfAssert(err == nil, "aead")
		return a
	}))
	src := netip.AddrPortFrom(vfAddrFrom4([4]byte{192, 0, 2, 1}), 8388)
	from, ps, pl, err := u.UnpackInPlace(b, src, front, n)
	if err != nil {
		vfAssert(u.currentServerSessionAEAD == nil && u.currentServerSessionFilter == nil && u.oldServerSessionAEAD == nil, "a dropped packet establishes no server session")
		vfReach("dropped")
		return
	}
	vfAssert(from.IsValid(), "source address valid")
	vfAssert(ps >= front && pl >= 0 && ps+pl <= front+n, "payload lies inside the received packet")
	vfReach("end")
}

// vfC06_TCPRequest: arbitrary bytes into StreamServer.HandleStream (with and without the key).
func vfC06_TCPRequest() {
	psk := vfBytes("psk", 16)
	ucfg, err := NewUserCipherConfig(psk, false)
	vfAssert(err == nil, "cipher config")
	server := (&StreamServerConfig{UserCipherConfig: ucfg, AllowSegmentedFixedLengthHeader: vfCase("seg") == 1}).NewStreamServer()
	n := vfInt("len")
	vfAssume(n >= 0 && n <= 400)
	c := &vfConn{}
	if vfCase("key") == 1 {
		// a peer that holds the key: arbitrary header plaintexts, genuinely sealed
		salt := vfBytes("salt", 16)
		sc, err := ucfg.ShadowStreamCipher(salt)
		vfAssert(err == nil, "cipher")
		wire := append([]byte{}, salt...)
		wire = sc.EncryptAppend(wire, vfBytes("fixedHeader", TCPRequestFixedLengthHeaderLength))
		vl := vfInt("varLen")
		vfAssume(vl >= 0 && vl <= 300)
		wire = sc.EncryptAppend(wire, vfBytes("varHeader", vl))
		tail := vfInt("tailLen")
		vfAssume(tail >= 0 && tail <= 20)
		wire = append(wire, vfBytes("tail", tail)...)
		c.data = wire
		n = len(wire)
	} else {
		c.data = vfBytes("wire", n)
	}
	req, err := server.HandleStream(c, zap.NewNop())
	if err != nil {
		vfReach("refused")
		return
	}
	vfAssert(req.Addr.IsValid(), "a produced request has a valid address")
	vfAssert(len(req.Payload) <= n, "payload comes from the received bytes")
	vfReach("end")
}

package ss2022

// C04 — sliding window filter.

// vfC04_History: K symbolic packet IDs from the initial state against set semantics.
func vfC04_History() {
	size := uint64(vfCase("S"))
	k := vfCase("K")
	f := NewSlidingWindowFilter(size)
	var ids [8]uint64
	var acc [8]bool
	var last uint64
	for i := 0; i < k; i++ {
		c := vfU64("c")
		seen := false
		for j := 0; j < i; j++ {
			if acc[j] && ids[j] == c {
				seen = true
			}
		}
		want := c > last || (last-c < size && !seen)
		// counter 0 before anything was added: last==0, 0-0<size, not seen -> accepted
		ok := f.IsOk(c)
		got := f.Add(c)
		vfAssert(ok == got, "IsOk agrees with Add")
		vfAssert(got == want, "Add verdict equals set semantics")
		ids[i], acc[i] = c, got
		if got && c > last {
			last = c
		}
	}
	vfReach("end")
}

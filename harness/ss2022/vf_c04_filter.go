package ss2022

// C04 — sliding window filter.

// vfC04_History: K symbolic packet IDs from the initial state against set semantics
// (representation independent cross-check of the inductive step below).
func vfC04_History() {
	size := uint64(vfCase("S"))
	k := vfCase("K")
	f := NewSlidingWindowFilter(size)
	var ids [8]uint64
	var acc [8]bool
	var last uint64
	for i := 0; i < k; i++ {
		c := vfU64("c")
		seen := false
		for j := 0; j < i; j++ {
			seen = vfOr(seen, vfAnd(acc[j], ids[j] == c))
		}
		want := vfOr(c > last, vfAnd(last-c < size, !seen))
		ok := f.IsOk(c)
		got := f.Add(c)
		vfAssert(ok == got, "IsOk agrees with Add")
		vfAssert(got == want, "Add verdict equals set semantics")
		ids[i], acc[i] = c, got
		last = vfIte(vfAnd(got, c > last), c, last)
	}
	vfReach("end")
}

func vfC04bit(f *SlidingWindowFilter, x uint64) bool {
	return f.ring[f.blockIndex(x)]&(1<<f.bitIndex(x)) != 0
}

// vfC04inv is the representation invariant instantiated at one id x:
//   x in the window        => its ring bit says whether x was delivered
//   x ahead, in last's block => its ring bit is clear
//   delivered ids are never ahead of last
func vfC04inv(f *SlidingWindowFilter, x uint64, seenX bool) bool {
	inWin := vfAnd(x <= f.last, f.last-x < f.size)
	a := vfImp(inWin, vfC04bit(f, x) == seenX)
	b := vfImp(vfAnd(x > f.last, f.unmaskedBlockIndex(x) == f.unmaskedBlockIndex(f.last)), !vfC04bit(f, x))
	c := vfImp(seenX, x <= f.last)
	return vfAnd(a, vfAnd(b, c))
}

// vfC04_Step: ONE operation from an ARBITRARY filter state satisfying the invariant (so histories
// of any length are covered): verdict equals set semantics and the invariant is preserved at an
// arbitrary witness id.  mode 0: Add; mode 1: IsOk then MustAdd when ok.
func vfC04_Step() {
	size := uint64(vfCase("S"))
	mode := vfCase("mode")
	f := NewSlidingWindowFilter(size)
	f.last = vfU64("last")
	for i := range f.ring {
		f.ring[i] = uint(vfU64("ring"))
	}
	c, w := vfU64("c"), vfU64("w")
	seenC, seenW := vfUFBool("seen", c), vfUFBool("seen", w)
	vfAssume(vfC04inv(f, c, seenC))
	vfAssume(vfC04inv(f, w, seenW))
	last0 := f.last
	want := vfOr(c > last0, vfAnd(last0-c < size, !seenC))
	var got bool
	if mode == 0 {
		got = f.Add(c)
	} else {
		got = f.IsOk(c)
		if got {
			f.MustAdd(c)
		}
	}
	vfAssert(got == want, "verdict equals set semantics (fresh accepted, replay refused)")
	seenW2 := vfOr(seenW, vfAnd(got, w == c))
	vfAssert(vfC04inv(f, w, seenW2), "representation invariant preserved at witness id")
	vfAssert(vfImp(!got, f.last == last0), "refused packet leaves last unchanged")
	vfReach("end")
}

// vfC04_Init: the constructor establishes the invariant with nothing delivered, and Reset restores it.
func vfC04_Init() {
	size := uint64(vfCase("S"))
	f := NewSlidingWindowFilter(size)
	w := vfU64("w")
	vfAssert(vfC04inv(f, w, false), "invariant holds initially")
	vfAssert(uint64(len(f.ring))*64 >= size+63, "ring covers window plus one spare block")
	vfAssert(f.ringBlockIndexMask == uint64(len(f.ring))-1, "mask matches ring")
	vfAssert(uint64(len(f.ring))&(uint64(len(f.ring))-1) == 0, "ring length is a power of two")
	vfReach("end")
}

package ss2022

import (
	"context"
	"errors"
	"net/netip"

	"github.com/database64128/shadowsocks-go/conn"
	"github.com/database64128/shadowsocks-go/zerocopy"
)

// C05 — SS2022 UDP: pack then unpack by the peer yields the same address and payload; a packed
// packet never exceeds the size derived from the MTU; a payload that cannot fit is refused.
//
// cases: key (16|32), kind (0..3 target kind), pad (0 NoPadding, 1 PadAll, 2 PadPlainDNS), eih (0|1)
func vfC05_SS2022() {
	keyLen := vfCase("key")
	kind := vfCase("kind")
	pads := []PaddingPolicy{NoPadding, PadAll, PadPlainDNS}
	pad := pads[vfCase("pad")]
	eih := vfCase("eih")
	psk := vfBytes("psk", keyLen)
	var iPSKs [][]byte
	if eih == 1 {
		iPSKs = [][]byte{vfBytes("ipsk", keyLen)}
	}
	mtu := vfInt("mtu")
	vfAssume(mtu >= 1280 && mtu <= 70000)
	ccfg, err := NewClientCipherConfig(psk, iPSKs, true)
	vfAssert(err == nil, "client cipher config")
	serverIP := vfAddrFrom4([4]byte{192, 0, 2, 1})
	if vfCase("server6") == 1 {
		serverIP = vfAddrFrom16([16]byte{0x20, 0x01, 0xd, 0xb8, 15: 1})
	}
	client := NewUDPClient("c", "udp", conn.AddrFromIPAndPort(serverIP, 8388), mtu, conn.ListenConfig{}, 0, ccfg, pad)
	info, sess, err := client.NewSession(context.Background())
	vfAssert(err == nil, "client session")
	vfAssert(sess.MaxPacketSize == zerocopy.MaxPacketSizeForAddr(mtu, serverIP), "max packet size derived from MTU and server address family")

	var server *UDPServer
	if eih == 1 {
		icfg, err := NewServerIdentityCipherConfig(iPSKs[0], true)
		vfAssert(err == nil, "identity cipher config")
		server = NewUDPServer(0, UserCipherConfig{}, icfg, pad)
		ucfg, err := NewServerUserCipherConfig("alice", psk, true)
		vfAssert(err == nil, "user cipher config")
		server.ReplaceUserLookupMap(UserLookupMap{PSKHash(psk): ucfg})
	} else {
		ucfg, err := NewUserCipherConfig(psk, true)
		vfAssert(err == nil, "user cipher config")
		server = NewUDPServer(0, ucfg, ServerIdentityCipherConfig{}, pad)
	}

	front := info.PackerHeadroom.Front
	rear := info.PackerHeadroom.Rear
	payloadLen := vfInt("payloadLen")
	vfAssume(payloadLen >= 0 && payloadLen <= 70000)
	payload := vfBytes("payload", payloadLen)
	target := vfTarget(kind)
	b := make([]byte, front+payloadLen+rear)
	copy(b[front:], payload)

	dest, ps, pl, err := sess.Packer.PackInPlace(context.Background(), b, target, front, payloadLen)
	addrLen := 7
	switch kind {
	case 1:
		addrLen = 19
	case 3:
		addrLen = 2 + len(target.Domain()) + 2
	}
	minPacket := 16 + 16*eih + 11 + addrLen + payloadLen + 16
	if err != nil {
		vfAssert(errors.Is(err, zerocopy.ErrPayloadTooBig), "the only packing error is payload-too-big")
		vfAssert(minPacket > sess.MaxPacketSize, "a payload that fits is not refused")
		vfReach("toobig")
		return
	}
	vfAssert(minPacket <= sess.MaxPacketSize, "a payload that cannot fit is refused, not truncated")
	vfAssert(dest == netip.AddrPortFrom(serverIP, 8388), "packets go to the server")
	vfAssert(ps >= 0 && pl >= minPacket && ps+pl <= len(b), "packet lies inside the buffer")
	vfAssert(pl <= sess.MaxPacketSize, "packed packet never exceeds the size derived from the MTU")

	// the server side
	pkt := b[ps : ps+pl]
	csid, err := server.SessionInfo(pkt)
	vfAssert(err == nil, "session info")
	unpacker, username, err := server.NewUnpacker(pkt, csid)
	vfAssert(err == nil, "new unpacker")
	vfAssert((username == "alice") == (eih == 1), "user attribution")
	src := netip.AddrPortFrom(vfAddrFrom4([4]byte{198, 51, 100, 7}), 40000)
	ta, s2, l2, err := unpacker.UnpackInPlace(b, src, ps, pl)
	vfAssert(err == nil, "genuine packet unpacks")
	vfAssert(vfSameAddr(ta, target), "unpacked target equals the packed target")
	vfAssert(l2 == payloadLen && s2 >= ps && s2+l2 <= ps+pl, "unpacked payload has the packed length and lies inside the packet")
	w := vfInt("w")
	vfAssume(w >= 0 && w < payloadLen)
	vfAssert(b[s2+w] == payload[w], "unpacked payload bytes equal the packed payload")
	vfReach("uplink")

	// the reply, packed by the server for the client
	spacker, err := unpacker.NewPacker()
	vfAssert(err == nil, "new packer")
	sh := spacker.ServerPackerInfo().Headroom
	rlen := vfInt("replyLen")
	vfAssume(rlen >= 0 && rlen <= 70000)
	reply := vfBytes("reply", rlen)
	rb := make([]byte, sh.Front+rlen+sh.Rear)
	copy(rb[sh.Front:], reply)
	var from netip.AddrPort
	if vfBool("from6") {
		var a [16]byte
		copy(a[:], vfBytes("fromIP6", 16))
		from = netip.AddrPortFrom(vfAddrFrom16(a), vfU16("fromPort"))
	} else {
		var a [4]byte
		copy(a[:], vfBytes("fromIP4", 4))
		from = netip.AddrPortFrom(vfAddrFrom4(a), vfU16("fromPort"))
	}
	maxLen := vfInt("maxPacketLen")
	vfAssume(maxLen >= 1232 && maxLen <= 70000)
	rs, rl, err := spacker.PackInPlace(rb, from, sh.Front, rlen, maxLen)
	fromLen := 7
	if !from.Addr().Is4() && !from.Addr().Is4In6() {
		fromLen = 19
	}
	minReply := 16 + 19 + fromLen + rlen + 16
	if err != nil {
		vfAssert(errors.Is(err, zerocopy.ErrPayloadTooBig) && minReply > maxLen, "a reply that fits is not refused")
		vfReach("replytoobig")
		return
	}
	vfAssert(minReply <= maxLen && rl <= maxLen && rs >= 0 && rs+rl <= len(rb), "reply packet within its limit and inside the buffer")
	gotFrom, s3, l3, err := sess.Unpacker.UnpackInPlace(rb, dest, rs, rl)
	vfAssert(err == nil, "genuine reply unpacks")
	vfAssert(gotFrom.Addr().Unmap() == from.Addr().Unmap() && gotFrom.Port() == from.Port(), "reply source address carried")
	vfAssert(l3 == rlen, "reply payload length")
	w2 := vfInt("w2")
	vfAssume(w2 >= 0 && w2 < rlen)
	vfAssert(rb[s3+w2] == reply[w2], "reply payload bytes")
	vfReach("end")
}

package ss2022

import (
	"context"

	"github.com/database64128/shadowsocks-go/conn"
	"go.uber.org/zap"
)

// C02 — tampered, spliced or foreign traffic is never delivered as data.

// vfGenuineRequest returns the bytes of a genuine request (IPv4 target, short payload).
func vfGenuineRequest(psk []byte, payload []byte) (wire []byte, target conn.Addr, cc any, d *vfDialer) {
	ccfg, err := NewClientCipherConfig(psk, nil, false)
	vfAssert(err == nil, "client cipher config")
	d = &vfDialer{}
	client := (&StreamClientConfig{Name: "c", InnerClient: d, CipherConfig: ccfg}).NewStreamClient()
	target = conn.AddrFromIPAndPort(vfAddrFrom4([4]byte{1, 2, 3, 4}), 443)
	c, err := client.DialStream(context.Background(), target, payload)
	vfAssert(err == nil, "dial succeeds")
	return d.c.out, target, c, d
}

// vfC02_Handshake: one byte of a genuine request is changed at a symbolic offset (any byte of the
// salt, the sealed fixed-length header, the sealed variable-length header), or the request is cut
// at a symbolic offset.  The server must not produce a connection request; with a fallback
// address configured it may only hand the untouched received bytes to the fallback.
//   cases: mode (0 flip, 1 cut), fallback (0|1)
func vfC02_Handshake() {
	mode := vfCase("mode")
	withFallback := vfCase("fallback") == 1
	psk := vfBytes("psk", 16)
	payload := vfBytes("payload", 5)
	wire, _, _, _ := vfGenuineRequest(psk, payload)
	n := len(wire)
	t := vfInt("t")
	vfAssume(t >= 0 && t < n)
	// the altered bytes
	bad := make([]byte, n)
	copy(bad, wire)
	if mode == 0 {
		delta := vfU8("delta")
		vfAssume(delta != 0)
		bad[t] ^= delta
		// witness positions for the ideal-AEAD model: the offset relative to either sealed message
		vfWitness(t - 16)
		vfWitness(t - 16 - 11 - 16)
	} else {
		bad = bad[:t]
	}
	ucfg, err := NewUserCipherConfig(psk, false)
	vfAssert(err == nil, "server cipher config")
	fallback := conn.AddrFromIPAndPort(vfAddrFrom4([4]byte{10, 0, 0, 1}), 80)
	scfg := &StreamServerConfig{UserCipherConfig: ucfg}
	if withFallback {
		scfg.UnsafeFallbackAddr = fallback
	}
	server := scfg.NewStreamServer()
	sc := &vfConn{}
	sc.data = bad
	sc.tag = "S"
	req, err := server.HandleStream(sc, zap.NewNop())
	if !withFallback {
		vfAssert(err != nil, "an altered or truncated handshake never yields a connection request")
		vfReach("refused")
	} else if err == nil {
		vfAssert(req.Addr.Equals(fallback), "an unauthenticated connection can only go to the fallback address")
		vfAssert(len(req.Payload) <= len(bad), "fallback payload is what was received")
		w := vfInt("w")
		vfAssume(w >= 0 && w < len(req.Payload))
		vfAssert(req.Payload[w] == bad[w], "the fallback receives the untouched received bytes")
		vfReach("fallback")
	} else {
		vfReach("refused")
	}
	vfReach("end")
}

// vfC02_Stream: after a genuine handshake and a genuine first write from the server (response
// header + chunk), one byte of the ciphertext is changed at a symbolic offset, or the ciphertext
// is cut.  The client must not return any byte that the server did not send at that position,
// and a read that touches the altered part fails.
//   cases: mode (0 flip, 1 cut)
func vfC02_Stream() {
	mode := vfCase("mode")
	psk := vfBytes("psk", 16)
	cc, sconn, ct, st := vfHandshake(psk, false)
	st.out = nil
	n1 := vfInt("n1")
	vfAssume(n1 >= 1 && n1 <= 300)
	data := vfBytes("data", n1)
	n, err := sconn.Write(data)
	vfAssert(err == nil && n == n1, "server write")
	wire := st.out
	t := vfInt("t")
	vfAssume(t >= 0 && t < len(wire))
	bad := make([]byte, len(wire))
	copy(bad, wire)
	// layout: salt(16) | sealed header (1+8+16+2 +16 tag = 43) | sealed payload (n1 + 16)
	if mode == 0 {
		delta := vfU8("delta")
		vfAssume(delta != 0)
		bad[t] ^= delta
		vfWitness(t - 16)
		vfWitness(t - 16 - 43)
	} else {
		bad = bad[:t]
	}
	ct.data = bad
	ct.pos, ct.reads, ct.frags = 0, 0, 0
	buf := make([]byte, 70000)
	got, rerr := cc.Read(buf)
	if rerr == nil {
		// only possible when the altered byte / the cut lies beyond what this read needed
		vfAssert(got <= n1, "never more than was sent")
		w := vfInt("w")
		vfAssume(w >= 0 && w < got)
		vfAssert(buf[w] == data[w], "returned bytes are a prefix of what the genuine peer sent")
		vfAssert(mode == 1 || false, "a read that touches altered data fails")
		vfReach("prefix")
	} else {
		vfAssert(got == 0, "a failing read returns no data")
		vfReach("refused")
	}
	vfReach("end")
}

// vfC02_Chunks: after a genuine handshake the server writes three chunks A, B, C (symbolic sizes
// and contents).  The attacker delivers whole chunks duplicated, reordered or dropped.  The client
// returns exactly A (a prefix of what was sent) and the read that meets the misplaced chunk fails.
//   cases: mode (0 duplicate B, 1 swap B and C, 2 drop B, 3 replay A's chunk after A)
func vfC02_Chunks() {
	mode := vfCase("mode")
	psk := vfBytes("psk", 16)
	cc, sconn, ct, st := vfHandshake(psk, false)
	st.out = nil
	var cut [4]int
	var data [3][]byte
	for i := 0; i < 3; i++ {
		n := vfInt("n")
		vfAssume(n >= 1 && n <= 40)
		data[i] = vfBytes("data", n)
		k, err := sconn.Write(data[i])
		vfAssert(err == nil && k == n, "server write")
		cut[i+1] = len(st.out)
	}
	A, B, C := st.out[:cut[1]], st.out[cut[1]:cut[2]], st.out[cut[2]:cut[3]]
	var wire []byte
	wire = append(wire, A...)
	good := 1 // chunks that are still in place
	switch mode {
	case 0:
		wire = append(wire, B...)
		wire = append(wire, B...)
		wire = append(wire, C...)
		good = 2
	case 1:
		wire = append(wire, C...)
		wire = append(wire, B...)
	case 2:
		wire = append(wire, C...)
	case 3:
		// the body of A (length chunk + payload chunk follow the 16-byte salt and 43-byte header)
		wire = append(wire, A[16+43:]...)
		wire = append(wire, B...)
	}
	ct.data = wire
	ct.pos, ct.reads, ct.frags = 0, 0, 0
	for i := 0; i < good; i++ {
		buf := make([]byte, 100)
		got, err := cc.Read(buf)
		vfAssert(err == nil && got == len(data[i]), "chunks still in place are delivered")
		w := vfInt("w")
		vfAssume(w >= 0 && w < got)
		vfAssert(buf[w] == data[i][w], "delivered bytes are what the genuine peer sent")
	}
	buf := make([]byte, 100)
	got, err := cc.Read(buf)
	vfAssert(err != nil && got == 0, "a duplicated, reordered, dropped or replayed chunk is never delivered as data")
	vfReach("end")
}

// vfC02_CrossSession: two genuine sessions under the same key; the response recorded from one is
// played to the client of the other, which must not accept it.
func vfC02_CrossSession() {
	psk := vfBytes("psk", 16)
	cc1, _, ct1, _ := vfHandshake(psk, false)
	_, sconn2, _, st2 := vfHandshake(psk, false)
	st2.out = nil
	data := vfBytes("data", 8)
	k, err := sconn2.Write(data)
	vfAssert(err == nil && k == 8, "server write")
	ct1.data = st2.out
	ct1.pos, ct1.reads, ct1.frags = 0, 0, 0
	buf := make([]byte, 100)
	got, rerr := cc1.Read(buf)
	vfAssert(rerr != nil && got == 0, "a response bound to another request is never accepted")
	vfReach("end")
}

// vfC02_WrongKey: a peer speaking under a key the server does not hold never produces a
// connection request; a server holding another key never gets a response accepted by the client.
//   cases: dir (0 client->server, 1 server->client)
func vfC02_WrongKey() {
	dir := vfCase("dir")
	psk := vfBytes("psk", 16)
	other := vfBytes("other", 16)
	j := vfInt("j")
	vfAssume(j >= 0 && j < 16 && psk[j] != other[j])
	if dir == 0 {
		wire, _, _, _ := vfGenuineRequest(other, vfBytes("payload", 5))
		ucfg, err := NewUserCipherConfig(psk, false)
		vfAssert(err == nil, "server cipher config")
		server := (&StreamServerConfig{UserCipherConfig: ucfg}).NewStreamServer()
		sc := &vfConn{}
		sc.data = wire
		sc.tag = "S"
		_, err = server.HandleStream(sc, zap.NewNop())
		vfAssert(err != nil, "a handshake made under a key the server does not hold never yields a request")
	} else {
		// the client dials under psk; a server under the other key answers a request of its own
		cc, _, ct, _ := vfHandshake(psk, false)
		_, sconnO, _, stO := vfHandshake(other, false)
		stO.out = nil
		k, err := sconnO.Write(vfBytes("data", 8))
		vfAssert(err == nil && k == 8, "foreign server write")
		ct.data = stO.out
		ct.pos, ct.reads, ct.frags = 0, 0, 0
		buf := make([]byte, 100)
		got, rerr := cc.Read(buf)
		vfAssert(rerr != nil && got == 0, "a response made under another key is never accepted")
	}
	vfReach("end")
}

// vfC02_Nonce: one inductive step of the per-direction nonce counter from an arbitrary state: the
// 96-bit little-endian counter advances by exactly one (so within one direction of a session no
// (key, nonce) pair is ever used for two chunks before 2^96 operations, which is what makes
// duplicated, reordered and spliced chunks fail authentication at any distance, not only among the
// first few chunks the other harnesses exercise).
func vfC02_Nonce() {
	var c ShadowStreamCipher
	nb := vfBytes("nonce", nonceSize)
	copy(c.nonce[:], nb)
	lo := uint64(nb[0]) | uint64(nb[1])<<8 | uint64(nb[2])<<16 | uint64(nb[3])<<24 | uint64(nb[4])<<32 | uint64(nb[5])<<40 | uint64(nb[6])<<48 | uint64(nb[7])<<56
	hi := uint32(nb[8]) | uint32(nb[9])<<8 | uint32(nb[10])<<16 | uint32(nb[11])<<24
	increment(c.nonce[:])
	n := c.nonce
	lo2 := uint64(n[0]) | uint64(n[1])<<8 | uint64(n[2])<<16 | uint64(n[3])<<24 | uint64(n[4])<<32 | uint64(n[5])<<40 | uint64(n[6])<<48 | uint64(n[7])<<56
	hi2 := uint32(n[8]) | uint32(n[9])<<8 | uint32(n[10])<<16 | uint32(n[11])<<24
	vfAssert(lo2 == lo+1, "the nonce counter advances by exactly one (low 64 bits)")
	carry := uint32(0)
	if lo2 == 0 {
		carry = 1
	}
	vfAssert(hi2 == hi+carry, "the carry propagates into the high 32 bits")
	vfReach("end")
}

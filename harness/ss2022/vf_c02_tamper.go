package ss2022

import (
	"context"

	"github.com/database64128/shadowsocks-go/conn"
	"go.uber.org/zap"
)

// C02 — tampered, spliced or foreign traffic is never delivered as data.

// vfGenuineRequest returns the bytes of a genuine request (IPv4 target, short payload).
func vfGenuineRequest(psk []byte, payload []byte) (wire []byte, target conn.Addr, cc any, d *vfDialer) {
	ccfg, err := NewClientCipherConfig(psk, nil, false)
	vfAssert(err == nil, "client cipher config")
	d = &vfDialer{}
	client := (&StreamClientConfig{Name: "c", InnerClient: d, CipherConfig: ccfg}).NewStreamClient()
	target = conn.AddrFromIPAndPort(vfAddrFrom4([4]byte{1, 2, 3, 4}), 443)
	c, err := client.DialStream(context.Background(), target, payload)
	vfAssert(err == nil, "dial succeeds")
	return d.c.out, target, c, d
}

// vfC02_Handshake: one byte of a genuine request is changed at a symbolic offset (any byte of the
// salt, the sealed fixed-length header, the sealed variable-length header), or the request is cut
// at a symbolic offset.  The server must not produce a connection request; with a fallback
// address configured it may only hand the untouched received bytes to the fallback.
//   cases: mode (0 flip, 1 cut), fallback (0|1)
func vfC02_Handshake() {
	mode := vfCase("mode")
	withFallback := vfCase("fallback") == 1
	psk := vfBytes("psk", 16)
	payload := vfBytes("payload", 5)
	wire, _, _, _ := vfGenuineRequest(psk, payload)
	n := len(wire)
	t := vfInt("t")
	vfAssume(t >= 0 && t < n)
	// the altered bytes
	bad := make([]byte, n)
	copy(bad, wire)
	if mode == 0 {
		delta := vfU8("delta")
		vfAssume(delta != 0)
		bad[t] ^= delta
		// witness positions for the ideal-AEAD model: the offset relative to either sealed message
		vfWitness(t - 16)
		vfWitness(t - 16 - 11 - 16)
	} else {
		bad = bad[:t]
	}
	ucfg, err := NewUserCipherConfig(psk, false)
	vfAssert(err == nil, "server cipher config")
	fallback := conn.AddrFromIPAndPort(vfAddrFrom4([4]byte{10, 0, 0, 1}), 80)
	scfg := &StreamServerConfig{UserCipherConfig: ucfg}
	if withFallback {
		scfg.UnsafeFallbackAddr = fallback
	}
	server := scfg.NewStreamServer()
	sc := &vfConn{}
	sc.data = bad
	sc.tag = "S"
	req, err := server.HandleStream(sc, zap.NewNop())
	if !withFallback {
		vfAssert(err != nil, "an altered or truncated handshake never yields a connection request")
		vfReach("refused")
	} else if err == nil {
		vfAssert(req.Addr.Equals(fallback), "an unauthenticated connection can only go to the fallback address")
		vfAssert(len(req.Payload) <= len(bad), "fallback payload is what was received")
		w := vfInt("w")
		vfAssume(w >= 0 && w < len(req.Payload))
		vfAssert(req.Payload[w] == bad[w], "the fallback receives the untouched received bytes")
		vfReach("fallback")
	} else {
		vfReach("refused")
	}
	vfReach("end")
}

// vfC02_Stream: after a genuine handshake and a genuine first write from the server (response
// header + chunk), one byte of the ciphertext is changed at a symbolic offset, or the ciphertext
// is cut.  The client must not return any byte that the server did not send at that position,
// and a read that touches the altered part fails.
//   cases: mode (0 flip, 1 cut)
func vfC02_Stream() {
	mode := vfCase("mode")
	psk := vfBytes("psk", 16)
	cc, sconn, ct, st := vfHandshake(psk, false)
	st.out = nil
	n1 := vfInt("n1")
	vfAssume(n1 >= 1 && n1 <= 300)
	data := vfBytes("data", n1)
	n, err := sconn.Write(data)
	vfAssert(err == nil && n == n1, "server write")
	wire := st.out
	t := vfInt("t")
	vfAssume(t >= 0 && t < len(wire))
	bad := make([]byte, len(wire))
	copy(bad, wire)
	// layout: salt(16) | sealed header (1+8+16+2 +16 tag = 43) | sealed payload (n1 + 16)
	if mode == 0 {
		delta := vfU8("delta")
		vfAssume(delta != 0)
		bad[t] ^= delta
		vfWitness(t - 16)
		vfWitness(t - 16 - 43)
	} else {
		bad = bad[:t]
	}
	ct.data = bad
	ct.pos, ct.reads, ct.frags = 0, 0, 0
	buf := make([]byte, 70000)
	got, rerr := cc.Read(buf)
	if rerr == nil {
		// only possible when the altered byte / the cut lies beyond what this read needed
		vfAssert(got <= n1, "never more than was sent")
		w := vfInt("w")
		vfAssume(w >= 0 && w < got)
		vfAssert(buf[w] == data[w], "returned bytes are a prefix of what the genuine peer sent")
		vfAssert(mode == 1 || false, "a read that touches altered data fails")
		vfReach("prefix")
	} else {
		vfAssert(got == 0, "a failing read returns no data")
		vfReach("refused")
	}
	vfReach("end")
}

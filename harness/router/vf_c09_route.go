package router

import (
	"context"
	"errors"
	"net/netip"

	"github.com/database64128/shadowsocks-go/conn"
	"github.com/database64128/shadowsocks-go/dns"
	"github.com/database64128/shadowsocks-go/netio"
	"github.com/database64128/shadowsocks-go/zerocopy"
	"go.uber.org/zap"
)

// C09 — routing picks the first route whose documented conditions all hold.

type vfTCPClient struct{ name string }

func (c *vfTCPClient) NewStreamDialer() (netio.StreamDialer, netio.StreamDialerInfo) {
	return c, netio.StreamDialerInfo{Name: c.name}
}
func (c *vfTCPClient) DialStream(ctx context.Context, addr conn.Addr, payload []byte) (netio.Conn, error) {
	return nil, errors.New("not dialing")
}

type vfUDPClient struct{ name string }

func (c *vfUDPClient) Info() zerocopy.UDPClientInfo { return zerocopy.UDPClientInfo{Name: c.name} }
func (c *vfUDPClient) NewSession(ctx context.Context) (zerocopy.UDPClientSessionInfo, zerocopy.UDPClientSession, error) {
	return zerocopy.UDPClientSessionInfo{}, zerocopy.UDPClientSession{}, errors.New("no session")
}

// vfResolver answers every lookup with the outcome chosen by the harness.
type vfResolver struct {
	ip      netip.Addr
	err     error
	lookups int
}

func (r *vfResolver) LookupIP(ctx context.Context, name string) (netip.Addr, error) {
	r.lookups++
	return r.ip, r.err
}
func (r *vfResolver) LookupIPs(ctx context.Context, name string) ([]netip.Addr, error) {
	r.lookups++
	if r.err != nil {
		return nil, r.err
	}
	return []netip.Addr{r.ip}, nil
}

var vfServers = []string{"s0", "s1", "s2"}
var vfUserNames = []string{"", "alice", "bob", "eve"}
var vfDomains = []string{"example.com", "www.example.com", "other.org"}

func vfPrefixes(ss ...string) (out []netip.Prefix) {
	for _, s := range ss {
		out = append(out, netip.MustParsePrefix(s))
	}
	return
}

const vfManyPorts = "1,3,5,7,9,11,13,15,17,19,21,23,25,27,29,31,33,35"

func vfTemplates() []Config {
	return []Config{
		0: {DefaultTCPClientName: "direct", DefaultUDPClientName: "direct"},
		1: {DefaultTCPClientName: "direct", DefaultUDPClientName: "direct", Routes: []RouteConfig{
			{Name: "r1", Client: "proxy", ToPorts: []uint16{443}},
			{Name: "r2", Client: "reject", ToPortRanges: "1-1023", InvertToPorts: true, Network: "udp"},
		}},
		2: {DefaultTCPClientName: "reject", DefaultUDPClientName: "direct", Routes: []RouteConfig{
			{Name: "r1", Client: "alt", FromServers: []string{"s0", "s2"}, FromUsers: []string{"alice", "bob"}, InvertFromUsers: true},
			{Name: "r2", Client: "proxy", FromUsers: []string{"alice"}, Network: "tcp"},
		}},
		3: {DefaultTCPClientName: "direct", DefaultUDPClientName: "reject", Routes: []RouteConfig{
			{Name: "r1", Client: "proxy", ToPortRanges: vfManyPorts},
			{Name: "r2", Client: "alt", FromPortRanges: vfManyPorts, InvertFromPorts: true, FromServers: []string{"s1"}, InvertFromServers: true},
		}},
		4: {DefaultTCPClientName: "direct", DefaultUDPClientName: "direct", Routes: []RouteConfig{
			{Name: "r1", Client: "proxy", FromPrefixes: vfPrefixes("10.0.0.0/8", "2001:db8::/32")},
			{Name: "r2", Client: "alt", ToPrefixes: vfPrefixes("192.0.2.0/24", "2001:db8:1::/48"), DisableNameResolutionForIPRules: true},
			{Name: "r3", Client: "reject", FromPrefixes: vfPrefixes("172.16.0.0/12"), InvertFromPrefixes: true, ToPorts: []uint16{25}},
		}},
		5: {DefaultTCPClientName: "direct", DefaultUDPClientName: "direct", Routes: []RouteConfig{
			{Name: "r1", Client: "proxy", ToDomains: []string{"example.com", "www.example.com"}},
			{Name: "r2", Client: "alt", ToPrefixes: vfPrefixes("192.0.2.0/24", "2001:db8:1::/48")},
		}},
		6: {DefaultTCPClientName: "direct", DefaultUDPClientName: "direct", Routes: []RouteConfig{
			{Name: "r1", Client: "proxy", ToDomains: []string{"example.com"}, ToMatchedDomainExpectedPrefixes: vfPrefixes("192.0.2.0/24"), InvertToMatchedDomainExpectedPrefixes: true},
			{Name: "r2", Client: "alt", ToDomains: []string{"other.org"}, InvertToDomains: true, ToPrefixes: vfPrefixes("198.51.100.0/24"), InvertToPrefixes: true, ToPorts: []uint16{80, 8080}},
		}},
		7: {DefaultTCPClientName: "direct", DefaultUDPClientName: "direct", Routes: []RouteConfig{
			{Name: "r1", Client: "proxy", ToPortRanges: "1000-2000,3000-4000", FromPorts: []uint16{53}, InvertFromPorts: true},
		}},
		// every port-set representation (single port, <=16 ranges, bitmap) with the two invert flags set differently
		8: {DefaultTCPClientName: "direct", DefaultUDPClientName: "direct", Routes: []RouteConfig{
			{Name: "r1", Client: "proxy", ToPortRanges: vfManyPorts, InvertToPorts: true, FromPorts: []uint16{53}},
			{Name: "r2", Client: "alt", ToPorts: []uint16{80}, FromPortRanges: vfManyPorts, InvertFromPorts: true},
		}},
		9: {DefaultTCPClientName: "direct", DefaultUDPClientName: "direct", Routes: []RouteConfig{
			{Name: "r1", Client: "proxy", ToPorts: []uint16{443}, InvertToPorts: true, FromPortRanges: "1000-2000"},
			{Name: "r2", Client: "alt", ToPortRanges: "1-100,200-300", FromPorts: []uint16{5353}, InvertFromPorts: true},
		}},
	}
}

type vfReq struct {
	udp      bool
	server   int
	user     string
	src      netip.AddrPort
	dstIsIP  bool
	dstIP    netip.Addr
	dstDom   string
	dstPort  uint16
	resolver *vfResolver
}

// outcome classes of a routing decision
const (
	vfClientDirect = iota
	vfClientProxy
	vfClientAlt
	vfRejected
	vfError
)

func vfClientClass(name string) int {
	switch name {
	case "direct":
		return vfClientDirect
	case "proxy":
		return vfClientProxy
	case "alt":
		return vfClientAlt
	case "reject":
		return vfRejected
	}
	panic("unknown client " + name)
}

func vfPortIn(ports []uint16, ranges string, p uint16) bool {
	if p == 0 {
		return false // port 0 is no member of any port set
	}
	in := false
	for _, q := range ports {
		in = vfOr(in, q == p)
	}
	var cur, from uint32
	dash := false
	flush := func() {
		if cur == 0 && !dash {
			return
		}
		lo, hi := cur, cur
		if dash {
			lo = from
		}
		in = vfOr(in, vfAnd(uint32(p) >= lo, uint32(p) <= hi))
		cur, from, dash = 0, 0, false
	}
	for i := 0; i < len(ranges); i++ {
		switch c := ranges[i]; {
		case c == ',':
			flush()
		case c == '-':
			from, cur, dash = cur, 0, true
		default:
			cur = cur*10 + uint32(c-'0')
		}
	}
	flush()
	return in
}

func vfInPrefixes(ps []netip.Prefix, ip netip.Addr) bool {
	ip = ip.Unmap()
	in := false
	for _, p := range ps {
		in = vfOr(in, p.Contains(ip))
	}
	return in
}

func vfContains(list []string, s string) bool {
	for _, x := range list {
		if x == s {
			return true
		}
	}
	return false
}

// vfRefRoute is the documented meaning of one route: (matched, error)
func vfRefRoute(rc *RouteConfig, q *vfReq) (bool, bool) {
	switch rc.Network {
	case "tcp":
		if q.udp {
			return false, false
		}
	case "udp":
		if !q.udp {
			return false, false
		}
	}
	if len(rc.FromServers) > 0 && vfContains(rc.FromServers, vfServers[q.server]) == rc.InvertFromServers {
		return false, false
	}
	if len(rc.FromUsers) > 0 && vfContains(rc.FromUsers, q.user) == rc.InvertFromUsers {
		return false, false
	}
	if len(rc.FromPorts) > 0 || rc.FromPortRanges != "" {
		if vfPortIn(rc.FromPorts, rc.FromPortRanges, q.src.Port()) == rc.InvertFromPorts {
			return false, false
		}
	}
	if len(rc.FromPrefixes) > 0 {
		if vfInPrefixes(rc.FromPrefixes, q.src.Addr()) == rc.InvertFromPrefixes {
			return false, false
		}
	}
	if len(rc.ToPorts) > 0 || rc.ToPortRanges != "" {
		if vfPortIn(rc.ToPorts, rc.ToPortRanges, q.dstPort) == rc.InvertToPorts {
			return false, false
		}
	}
	if len(rc.ToDomains) > 0 || len(rc.ToPrefixes) > 0 {
		// destination kinds combine with OR, evaluated in the documented order
		met := false
		if len(rc.ToDomains) > 0 {
			m := !q.dstIsIP && vfContains(rc.ToDomains, q.dstDom)
			if m && len(rc.ToMatchedDomainExpectedPrefixes) > 0 {
				if q.resolver.err != nil {
					return false, true
				}
				m = vfInPrefixes(rc.ToMatchedDomainExpectedPrefixes, q.resolver.ip) != rc.InvertToMatchedDomainExpectedPrefixes
			}
			met = m != rc.InvertToDomains
		}
		if !met && len(rc.ToPrefixes) > 0 {
			var m bool
			switch {
			case q.dstIsIP:
				m = vfInPrefixes(rc.ToPrefixes, q.dstIP)
			case rc.DisableNameResolutionForIPRules:
				m = false
			default:
				if q.resolver.err != nil {
					return false, true
				}
				m = vfInPrefixes(rc.ToPrefixes, q.resolver.ip)
			}
			met = m != rc.InvertToPrefixes
		}
		if !met {
			return false, false
		}
	}
	return true, false
}

func vfRef(cfg *Config, q *vfReq) int {
	for i := range cfg.Routes {
		m, e := vfRefRoute(&cfg.Routes[i], q)
		if e {
			return vfError
		}
		if m {
			return vfClientClass(cfg.Routes[i].Client)
		}
	}
	if q.udp {
		return vfClientClass(cfg.DefaultUDPClientName)
	}
	return vfClientClass(cfg.DefaultTCPClientName)
}

// vfPinned: the port-focused templates fix the dimensions their routes do not look at (address
// families, server, user, resolver outcome) so that the ports stay the only symbolic inputs.
var vfPinned bool

func vfSymAddr(tag string) netip.Addr {
	if vfPinned {
		var a [4]byte
		copy(a[:], vfBytes(tag+"4", 4))
		return netip.AddrFrom4(a)
	}
	switch vfConcretize(vfU64(tag+"Kind"), 0, 2) {
	case 0:
		var a [4]byte
		copy(a[:], vfBytes(tag+"4", 4))
		return netip.AddrFrom4(a)
	case 1:
		var a [16]byte
		copy(a[:], vfBytes(tag+"6", 16))
		ip := netip.AddrFrom16(a)
		vfAssume(!ip.Is4In6())
		return ip
	default:
		var a [16]byte
		copy(a[10:], []byte{0xff, 0xff})
		copy(a[12:], vfBytes(tag+"4in6", 4))
		return netip.AddrFrom16(a)
	}
}

// vfC09_Route: cases tmpl (template index), net (0 tcp, 1 udp), dst (0 IP target, 1 domain target)
func vfC09_Route() {
	cfg := vfTemplates()[vfCase("tmpl")]
	udp := vfCase("net") == 1
	tcpMap := map[string]netio.StreamClient{"direct": &vfTCPClient{"direct"}, "proxy": &vfTCPClient{"proxy"}, "alt": &vfTCPClient{"alt"}}
	udpMap := map[string]zerocopy.UDPClient{"direct": &vfUDPClient{"direct"}, "proxy": &vfUDPClient{"proxy"}, "alt": &vfUDPClient{"alt"}}
	servers := map[string]int{"s0": 0, "s1": 1, "s2": 2}
	vfPinned = vfCase("pin") == 1
	res := &vfResolver{}
	mode := uint64(0)
	if !vfPinned {
		mode = vfConcretize(vfU64("resolverMode"), 0, 2)
	}
	switch mode {
	case 0:
		res.ip = vfSymAddr("resolved")
	case 1:
		res.err = dns.ErrLookup
	default:
		res.err = dns.ErrDomainNoAssociatedIPs
	}
	r, err := cfg.Router(zap.NewNop(), []dns.SimpleResolver{res}, map[string]dns.SimpleResolver{"r": res}, tcpMap, udpMap, servers)
	vfAssert(err == nil, "template configuration loads")
	q := &vfReq{udp: udp, resolver: res}
	if !vfPinned {
		q.server = int(vfConcretize(vfU64("server"), 0, 2))
		q.user = vfUserNames[vfConcretize(vfU64("user"), 0, 3)]
	} else {
		q.user = vfUserNames[0]
	}
	q.src = netip.AddrPortFrom(vfSymAddr("src"), vfU16("srcPort"))
	q.dstPort = vfU16("dstPort")
	var target conn.Addr
	if vfCase("dst") == 0 {
		q.dstIsIP = true
		q.dstIP = vfSymAddr("dst")
		target = conn.AddrFromIPAndPort(q.dstIP, q.dstPort)
	} else {
		q.dstDom = vfDomains[vfConcretize(vfU64("domain"), 0, 2)]
		target = conn.MustAddrFromDomainPort(q.dstDom, q.dstPort)
	}
	info := RequestInfo{ServerIndex: q.server, Username: q.user, SourceAddrPort: q.src, TargetAddr: target}
	got := vfError
	if udp {
		c, err := r.GetUDPClient(context.Background(), info)
		switch {
		case err == nil:
			got = vfClientClass(c.(*vfUDPClient).name)
		case err == ErrRejected:
			got = vfRejected
		}
	} else {
		c, err := r.GetTCPClient(context.Background(), info)
		switch {
		case err == nil:
			got = vfClientClass(c.(*vfTCPClient).name)
		case err == ErrRejected:
			got = vfRejected
		}
	}
	want := vfRef(&cfg, q)
	vfAssert(got == want, "the chosen client is that of the first route whose documented conditions all hold, else the default; resolver failures are errors")
	vfReach("end")
}

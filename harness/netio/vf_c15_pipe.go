package netio

import (
	"errors"
	"io"
	"os"
	"sync"
	"time"
)

// the testing/synctest bubble of the native replay starts its clock here
const vfEpoch = 946684800

// C15 — the in-memory pipe is a faithful duplex stream with half-close and deadlines.
//
// Every harness runs the real PipeConn code on several goroutines under a symbolic schedule
// (bounded preemptions at every channel/mutex/atomic operation, every choice among ready select
// cases) with symbolic data, write sizes and read-buffer sizes.

// vfPipeData returns n symbolic bytes whose top bit is `tag` (so that the writer of every byte
// received is known, contents otherwise arbitrary).
func vfPipeData(name string, n int, tag byte) []byte {
	d := vfBytes(name, n)
	for i := 0; i < n; i++ {
		vfAssume(d[i]&0x80 == tag)
	}
	return d
}

// vfReadSome performs up to k reads with a symbolic buffer size 0..max each and appends what
// arrives; it stops at the first error (io.EOF included) and returns it.
func vfReadSome(p *PipeConn, name string, k, max int, out *[]byte) error {
	for i := 0; i < k; i++ {
		m := vfInt(name)
		vfAssume(m >= 0 && m <= max)
		buf := make([]byte, m)
		n, err := p.Read(buf)
		vfAssert(n >= 0 && n <= m, "read count within the buffer")
		*out = append(*out, buf[:n]...)
		if err != nil {
			vfAssert(n == 0, "a failed read returns no bytes")
			return err
		}
	}
	return nil
}

// vfC15_Transfer: one or two concurrent writers at one end, one reader at the other doing a
// bounded number of reads with symbolic buffer sizes and then closing its read side.
//   cases: writers (1|2), L (write size), reads, preempt
func vfC15_Transfer() {
	writers := vfCase("writers")
	L := vfCase("L")
	reads := vfCase("reads")
	a, b := NewPipe()
	d1 := vfPipeData("d1", L, 0)
	d2 := vfPipeData("d2", L, 0x80)
	var n1, n2 int
	var e1, e2 error
	var out []byte
	var rerr error
	var wg sync.WaitGroup
	wg.Add(writers)
	vfSchedule(vfCase("preempt"))
	vfGo("w1", func() { n1, e1 = a.Write(d1); wg.Done() })
	if writers == 2 {
		vfGo("w2", func() { n2, e2 = a.Write(d2); wg.Done() })
	}
	vfGo("c", func() { wg.Wait(); a.CloseWrite() })
	vfGo("r", func() {
		rerr = vfReadSome(b, "m", reads, 3*L, &out)
		b.CloseRead()
	})
	vfJoin()
	vfAssert(rerr == nil || rerr == io.EOF, "reads succeed until end-of-stream")
	if rerr == io.EOF {
		vfAssert(n1 == L && (writers == 1 || n2 == L), "end-of-stream only after everything written was read")
	}
	// a write reports only bytes the reader consumed
	vfAssert(n1 >= 0 && n1 <= L && n2 >= 0 && n2 <= L, "write counts in range")
	vfAssert(len(out) == n1+n2, "a write reports exactly the bytes the reader consumed")
	vfAssert((e1 == nil) == (n1 == L) || L == 0, "a write is complete exactly when it reports no error")
	if writers == 2 {
		vfAssert((e2 == nil) == (n2 == L) || L == 0, "second write complete exactly when no error")
	}
	if e1 != nil {
		vfAssert(!vfIsTimeout(e1), "a write cut short by the reader closing fails with a closure error, not a timeout")
	}
	if len(out) > 0 {
		// order of the two writes as observed by the reader
		first, second, nf, ns := d1, d2, n1, n2
		if out[0]&0x80 != 0 {
			first, second, nf, ns = d2, d1, n2, n1
		}
		vfAssert(nf == L || ns == 0, "concurrent writes never interleave: the second starts only after the first is complete")
		w := vfInt("w")
		vfAssume(w >= 0 && w < len(out))
		if w < nf {
			vfAssert(out[w] == first[w], "bytes arrive exactly once and in order (first write)")
		} else {
			vfAssert(out[w] == second[w-nf], "bytes arrive exactly once and in order (second write)")
		}
	}
	vfReach("end")
}

// vfC15_HalfClose: a writes then closes its write side while the reverse direction is in use.
//   cases: L, preempt
func vfC15_HalfClose() {
	L := vfCase("L")
	a, b := NewPipe()
	d := vfPipeData("d", L, 0)
	e := vfPipeData("e", L, 0x80)
	var out, back []byte
	var rerr, berr, cwerr error
	var nw, nb int
	var we, be error
	vfSchedule(vfCase("preempt"))
	vfGo("w", func() {
		nw, we = a.Write(d)
		cwerr = a.CloseWrite()
	})
	vfGo("r", func() {
		// drains until end-of-stream, then answers on the reverse direction
		for {
			buf := make([]byte, 2)
			n, err := b.Read(buf)
			out = append(out, buf[:n]...)
			if err != nil {
				rerr = err
				break
			}
			vfAssert(len(out) <= L, "the reader never receives more than was written")
		}
		nb, be = b.Write(e)
		b.CloseWrite()
	})
	vfGo("x", func() {
		berr = vfReadSome(a, "mx", 3, 3*L, &back)
		a.CloseRead()
	})
	vfJoin()
	vfAssert(we == nil && nw == L && cwerr == nil, "write before CloseWrite completes")
	vfAssert(rerr == io.EOF, "the peer sees end-of-stream after draining")
	vfAssert(len(out) == L, "everything written before CloseWrite is drained")
	w := vfInt("w")
	vfAssume(w >= 0 && w < L)
	vfAssert(out[w] == d[w], "drained bytes are the written ones")
	vfAssert(berr == nil || berr == io.EOF, "the reverse direction keeps working after CloseWrite")
	if berr == io.EOF {
		vfAssert(nb == L, "reverse end-of-stream only after everything was read")
	}
	vfAssert(len(back) == nb && (be == nil) == (nb == L), "reverse direction counts")
	if len(back) > 0 {
		w2 := vfInt("w2")
		vfAssume(w2 >= 0 && w2 < len(back))
		vfAssert(back[w2] == e[w2], "reverse bytes intact")
	}
	vfReach("end")
}

// vfC15_CloseRead: closing the read side fails the peer's writes; later calls fail at once.
func vfC15_CloseRead() {
	L := vfCase("L")
	a, b := NewPipe()
	d := vfPipeData("d", L, 0)
	var out []byte
	var nw int
	var we, rerr error
	vfSchedule(vfCase("preempt"))
	vfGo("w", func() { nw, we = a.Write(d) })
	vfGo("r", func() { rerr = vfReadSome(b, "m", 1, 3*L, &out) })
	vfGo("c", func() { b.CloseRead() })
	vfJoin()
	vfAssert(len(out) == nw, "a write reports only bytes the reader consumed")
	if nw < L {
		vfAssert(we != nil, "closing the read side fails the peer's write")
	} else {
		vfAssert(we == nil, "a complete write succeeds")
	}
	if rerr != nil {
		vfAssert(rerr != io.EOF && len(out) == 0, "a read after CloseRead fails (and not with a clean end-of-stream)")
	}
	if len(out) > 0 {
		w := vfInt("w")
		vfAssume(w >= 0 && w < len(out))
		vfAssert(out[w] == d[w], "delivered prefix intact")
	}
	// afterwards: writes fail at once with nothing written, reads fail
	n, err := a.Write(d)
	vfAssert(n == 0 && err != nil, "write after the peer closed its read side fails")
	n, err = b.Read(make([]byte, 1))
	vfAssert(n == 0 && err != nil && err != io.EOF, "read after CloseRead fails")
	vfReach("end")
}

func vfIsTimeout(err error) bool {
	return err != nil && errors.Is(err, os.ErrDeadlineExceeded)
}

// vfC15_Deadline: a deadline in the past unblocks a pending call with a timeout error; clearing it
// lets calls proceed; concurrent Set*Deadline calls never deadlock or panic.
//   cases: side (0 read, 1 write), preempt
func vfC15_Deadline() {
	side := vfCase("side")
	a, b := NewPipe()
	d := vfPipeData("d", 2, 0)
	past := time.Unix(1, 0)
	vfClock(1000, 0)
	var out []byte
	var n1 int
	var e1, e2 error
	vfSchedule(vfCase("preempt"))
	if side == 0 {
		vfGo("r", func() {
			buf := make([]byte, 4)
			n1, e1 = b.Read(buf)
			out = append(out, buf[:n1]...)
			b.CloseRead() // releases the writer if the read timed out
		})
		vfGo("s1", func() { b.SetReadDeadline(past) })
		vfGo("s2", func() { b.SetReadDeadline(time.Time{}) })
		var nw int
		vfGo("w", func() { nw, e2 = a.Write(d) })
		vfJoin()
		if e1 != nil {
			vfAssert(vfIsTimeout(e1) && n1 == 0, "a pending read is unblocked only by the deadline, with a timeout error")
		}
		vfAssert(len(out) == nw, "a write reports only bytes the reader consumed")
		if nw < 2 {
			vfAssert(e2 != nil, "write released by CloseRead")
		}
	} else {
		vfGo("w", func() {
			n1, e1 = a.Write(d)
			a.CloseWrite() // releases the reader if the write timed out
		})
		vfGo("s1", func() { a.SetWriteDeadline(past) })
		vfGo("s2", func() { a.SetWriteDeadline(time.Time{}) })
		vfGo("r", func() {
			for {
				buf := make([]byte, 1)
				n, err := b.Read(buf)
				out = append(out, buf[:n]...)
				if err != nil {
					e2 = err
					break
				}
				vfAssert(len(out) <= 2, "the reader never receives more than was written")
			}
		})
		vfJoin()
		if e1 != nil {
			vfAssert(vfIsTimeout(e1), "a pending write is unblocked only by the deadline, with a timeout error")
		}
		vfAssert(len(out) == n1, "a write reports only bytes the reader consumed")
		vfAssert(e2 == io.EOF, "reader ends with end-of-stream")
	}
	// sequential aftermath: past deadline fails at once, zero deadline restores service
	a2, b2 := NewPipe()
	b2.SetReadDeadline(past)
	n, err := b2.Read(make([]byte, 1))
	vfAssert(n == 0 && vfIsTimeout(err), "a read under an expired deadline times out")
	b2.SetReadDeadline(time.Time{})
	a2.SetWriteDeadline(past)
	n, err = a2.Write(d)
	vfAssert(n == 0 && vfIsTimeout(err), "a write under an expired deadline times out")
	vfReach("end")
}

// vfC15_Timer: a future deadline fires through its timer, can be re-armed and cleared.
func vfC15_Timer() {
	a, b := NewPipe()
	d := vfPipeData("d", 2, 0)
	vfClock(vfEpoch+1000, 0)
	var n1 int
	var e1 error
	vfGo("r", func() { n1, e1 = b.Read(make([]byte, 4)) })
	vfSettle()
	b.SetReadDeadline(time.Unix(vfEpoch+1001, 0))
	vfSettle()
	vfClock(vfEpoch+1002, 0)
	vfFireTimers(time.Millisecond)
	vfJoin()
	vfAssert(n1 == 0 && vfIsTimeout(e1), "the deadline unblocks the pending read with a timeout error")
	// re-arm in the future: reads work again
	b.SetReadDeadline(time.Unix(vfEpoch+1010, 0))
	var out []byte
	var e2 error
	vfGo("r2", func() {
		buf := make([]byte, 1)
		var k int
		k, e2 = b.Read(buf)
		out = append(out, buf[:k]...)
	})
	n, err := a.Write(d[:1])
	vfJoin()
	vfAssert(e2 == nil && len(out) == 1 && n == 1 && err == nil && out[0] == d[0], "a re-armed deadline lets traffic through")
	b.SetReadDeadline(time.Time{})
	vfClock(vfEpoch+1020, 0)
	vfFireTimers(time.Millisecond)
	var e3 error
	var n3 int
	vfGo("r3", func() {
		buf := make([]byte, 1)
		n3, e3 = b.Read(buf)
		out = append(out, buf[:n3]...)
	})
	n, err = a.Write(d[1:])
	vfJoin()
	vfAssert(e3 == nil && n3 == 1 && n == 1 && err == nil, "a cleared deadline never fires")
	vfReach("end")
}

// vfCollect is a WriteTo destination that accepts `limit` bytes in total and then fails (short
// write with an error); limit < 0 = never fails.
type vfCollect struct {
	b     []byte
	limit int
}

var vfSinkErr = errors.New("sink failed")

func (c *vfCollect) Write(p []byte) (int, error) {
	if c.limit >= 0 && len(c.b)+len(p) > c.limit {
		k := c.limit - len(c.b)
		c.b = append(c.b, p[:k]...)
		return k, vfSinkErr
	}
	c.b = append(c.b, p...)
	return len(p), nil
}

// vfC15_WriteTo: WriteTo forwards every written byte once and ends cleanly at end-of-stream.
func vfC15_WriteTo() {
	L := vfCase("L")
	a, b := NewPipe()
	d1 := vfPipeData("d1", L, 0)
	d2 := vfPipeData("d2", L, 0x80)
	c := vfCollect{limit: -1}
	var nt int64
	var te, e1, e2 error
	var n1, n2 int
	vfSchedule(vfCase("preempt"))
	vfGo("t", func() { nt, te = b.WriteTo(&c) })
	vfGo("w", func() {
		n1, e1 = a.Write(d1)
		n2, e2 = a.Write(d2)
		a.CloseWrite()
	})
	vfJoin()
	vfAssert(e1 == nil && e2 == nil && n1 == L && n2 == L, "writes complete")
	vfAssert(te == nil && nt == int64(2*L), "WriteTo ends cleanly at end-of-stream with the full count")
	vfAssert(len(c.b) == 2*L, "every byte forwarded once")
	w := vfInt("w")
	vfAssume(w >= 0 && w < 2*L)
	if w < L {
		vfAssert(c.b[w] == d1[w], "forwarded in order (first write)")
	} else {
		vfAssert(c.b[w] == d2[w-L], "forwarded in order (second write)")
	}
	vfReach("end")
}

// vfC15_WriteToFail: the WriteTo destination fails after a symbolic number of bytes.  WriteTo
// reports the destination's error and the bytes it accepted, the peer's write reports exactly
// those bytes once the reader gives up (CloseRead), and nothing deadlocks.
func vfC15_WriteToFail() {
	L := vfCase("L")
	a, b := NewPipe()
	d := vfPipeData("d", L, 0)
	lim := vfInt("limit")
	vfAssume(lim >= 0 && lim < L)
	c := vfCollect{limit: lim}
	var nt int64
	var te, we error
	var nw int
	vfSchedule(vfCase("preempt"))
	vfGo("t", func() {
		nt, te = b.WriteTo(&c)
		b.CloseRead()
	})
	vfGo("w", func() { nw, we = a.Write(d) })
	vfJoin()
	vfAssert(te != nil && errors.Is(te, vfSinkErr), "WriteTo reports the destination's error")
	vfAssert(nt == int64(lim) && len(c.b) == lim, "WriteTo counts the bytes the destination accepted")
	vfAssert(nw == lim, "the write reports exactly the bytes the reader consumed")
	vfAssert(we != nil, "the write is failed by the reader closing its side")
	if lim > 0 {
		w := vfInt("w")
		vfAssume(w >= 0 && w < lim)
		vfAssert(c.b[w] == d[w], "accepted bytes intact")
	}
	vfReach("end")
}

// vfC15_DeadlineSeq: a call that is already parked is woken by a deadline that is set after the
// deadline had been cleared or re-armed (the parked call holds the channel it obtained when it
// started waiting; every later Set*Deadline must still reach it).  There is no peer activity, so a
// call that is not woken leaves every goroutine blocked, which the executor reports.
//   cases: side (0 read, 1 write, 2 WriteTo), first (0: clear, then past; 1: future, then past;
//          2: future, clear, then past), preempt
func vfC15_DeadlineSeq() {
	side := vfCase("side")
	first := vfCase("first")
	a, b := NewPipe()
	vfClock(1000, 0)
	past := time.Unix(1, 0)
	future := time.Unix(4000000000, 0)
	var n1 int
	var e1 error
	vfSchedule(vfCase("preempt"))
	set := func(t time.Time) {
		if side == 1 {
			a.SetWriteDeadline(t)
		} else {
			b.SetReadDeadline(t)
		}
	}
	vfGo("c", func() {
		switch side {
		case 0:
			n1, e1 = b.Read(make([]byte, 4))
		case 1:
			n1, e1 = a.Write([]byte{1, 2})
		default:
			var n int64
			n, e1 = b.WriteTo(&vfSinkW{})
			n1 = int(n)
		}
	})
	vfGo("s", func() {
		switch first {
		case 0:
			set(time.Time{})
		case 1:
			set(future)
		default:
			set(future)
			set(time.Time{})
		}
		set(past)
	})
	vfJoin()
	vfAssert(n1 == 0 && vfIsTimeout(e1), "a deadline unblocks a pending call with a timeout error")
	vfReach("end")
}

type vfSinkW struct{ n int }

func (s *vfSinkW) Write(p []byte) (int, error) { s.n += len(p); return len(p), nil }

package domainset

// C10 — suffix rules mean the same in every matcher the loader may choose (linear scan, map,
// trie) and in every insertion order, for a SYMBOLIC probe domain.

var vfSuffixSets = [][]string{
	0: {"a.b", "b"},             // longer rule first, then the suffix it extends
	1: {"b", "a.b"},             // the opposite order
	2: {"a.a.b", "a.b", "b.b"},  // nested twice
	3: {"a.b", "a.a.b", "b.a"},  // shorter first
	4: {"a", "b.a", "a.b.a", "b", "a.b"}, // above the linear threshold (5 rules)
	5: {"a.b.a", "b.a", "a.b", "b.b.b", "a.a"},
	6: {"ab", "b.ab", "a"},
}

func vfRefSuffix(domain string, rules []string) bool {
	m := false
	for _, r := range rules {
		m = vfOr(m, matchDomainSuffix(domain, r))
	}
	return m
}

// cases: set (rule list), len (probe length)
func vfC10_Suffix() {
	rules := vfSuffixSets[vfCase("set")]
	n := vfCase("len")
	pb := vfBytes("probe", n)
	for i := 0; i < n; i++ {
		vfAssume(pb[i] == 'a' || pb[i] == 'b' || pb[i] == '.')
	}
	// well-formed names: no empty labels
	vfAssume(pb[0] != '.' && pb[n-1] != '.')
	for i := 1; i < n; i++ {
		vfAssume(!(pb[i] == '.' && pb[i-1] == '.'))
	}
	probe := string(pb)
	want := vfRefSuffix(probe, rules)

	trie := NewDomainSuffixTrie()
	for _, r := range rules {
		trie.Insert(r)
	}
	vfAssert(trie.Match(probe) == want, "suffix trie agrees with the rules' meaning whatever the insertion order")

	lin := SuffixLinearMatcher(rules)
	vfAssert(lin.Match(probe) == want, "linear suffix matcher agrees with the rules' meaning")

	mm := SuffixMapMatcherFromSlice(rules)
	vfAssert(mm.Match(probe) == want, "suffix map matcher agrees with the rules' meaning")

	// the matcher the loader picks for this rule count
	ms, err := lin.AppendTo(nil)
	vfAssert(err == nil && len(ms) == 1, "matcher chosen")
	vfAssert(ms[0].Match(probe) == want, "the matcher chosen by rule count agrees with the rules' meaning")
	vfAssert(trie.KeyCount() <= len(rules), "trie holds no more rules than were inserted")
	vfReach("end")
}

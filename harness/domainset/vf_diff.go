package domainset

// Differential driver (translator validation): every matcher on random probes over a small alphabet.
func vfDiff_Matchers() {
	alpha := []byte("ab.")
	n := 1 + int(vfU8("len")%7)
	pb := vfBytes("probe", n)
	for i := range pb {
		pb[i] = alpha[pb[i]%3]
	}
	probe := string(pb)
	rules := vfSuffixSets[int(vfU8("sset"))%len(vfSuffixSets)]
	trie := NewDomainSuffixTrie()
	for _, r := range rules {
		trie.Insert(r)
	}
	vfObserve("trie", vfDiffB(trie.Match(probe)))
	vfObserve("slin", vfDiffB(SuffixLinearMatcher(rules).Match(probe)))
	vfObserve("smap", vfDiffB(SuffixMapMatcherFromSlice(rules).Match(probe)))
	drules := vfDomainSets[int(vfU8("dset"))%len(vfDomainSets)]
	vfObserve("dlin", vfDiffB(DomainLinearMatcher(drules).Match(probe)))
	vfObserve("dbs", vfDiffB(DomainBinarySearchMatcherFromSlice(drules).Match(probe)))
	vfObserve("dmap", vfDiffB(DomainMapMatcherFromSlice(drules).Match(probe)))
	krules := vfKeywordSets[int(vfU8("kset"))%len(vfKeywordSets)]
	vfObserve("kw", vfDiffB(KeywordLinearMatcher(krules).Match(probe)))
	vfObserve("keys", uint64(trie.KeyCount()))
}

func vfDiffB(b bool) uint64 {
	if b {
		return 1
	}
	return 0
}

package domainset

// C10 — exact-domain rules mean the same in the linear, binary-search and map matchers, in every
// insertion order (the binary-search matcher keeps its rules sorted while inserting), and keyword
// rules match exactly the domains that contain one of them — for a SYMBOLIC probe domain.

var vfDomainSets = [][]string{
	0: {"ab", "a", "b"},
	1: {"b", "ab", "a", "ab"}, // a duplicate
	2: {"ba", "ab", "bb", "aa", "a.b"},
	3: {"b.a", "a.b", "a", "ab.a"},
}

var vfKeywordSets = [][]string{
	0: {"ab"},
	1: {"a.b", "bb"},
	2: {"b", "aa"},
}

// cases: set, len (probe length)
func vfC10_Domain() {
	rules := vfDomainSets[vfCase("set")]
	n := vfCase("len")
	pb := vfBytes("probe", n)
	for i := 0; i < n; i++ {
		vfAssume(pb[i] == 'a' || pb[i] == 'b' || pb[i] == '.')
	}
	probe := string(pb)
	want := false
	for _, r := range rules {
		want = vfOr(want, probe == r)
	}
	lin := DomainLinearMatcher(rules)
	vfAssert(lin.Match(probe) == want, "linear exact-domain matcher")
	bs := DomainBinarySearchMatcherFromSlice(rules)
	vfAssert(bs.Match(probe) == want, "binary-search exact-domain matcher, whatever the insertion order")
	mm := DomainMapMatcherFromSlice(rules)
	vfAssert(mm.Match(probe) == want, "map exact-domain matcher")
	ms, err := lin.AppendTo(nil)
	vfAssert(err == nil && len(ms) == 1 && ms[0].Match(probe) == want, "the matcher chosen by rule count")
	k, _ := bs.Rules()
	vfAssert(k <= len(rules), "no more rules than were inserted")
	vfReach("end")
}

// cases: set, len
func vfC10_Keyword() {
	rules := vfKeywordSets[vfCase("set")]
	n := vfCase("len")
	pb := vfBytes("probe", n)
	for i := 0; i < n; i++ {
		vfAssume(pb[i] == 'a' || pb[i] == 'b' || pb[i] == '.')
	}
	probe := string(pb)
	// reference: some rule occurs at some offset
	want := false
	for _, r := range rules {
		for off := 0; off+len(r) <= n; off++ {
			hit := true
			for j := 0; j < len(r); j++ {
				hit = vfAnd(hit, pb[off+j] == r[j])
			}
			want = vfOr(want, hit)
		}
	}
	klm := KeywordLinearMatcher(rules)
	vfAssert(klm.Match(probe) == want, "keyword matcher matches exactly the domains containing a keyword")
	vfReach("end")
}

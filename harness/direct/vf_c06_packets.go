package direct

import (
	"net/netip"

	"github.com/database64128/shadowsocks-go/conn"
)

// C06 — the plain UDP protocols' unpackers on arbitrary datagrams placed anywhere in a buffer: no
// panic, and a datagram that is accepted yields a payload window inside the datagram.
//   cases: u (0 socks5 server, 1 ss-none server, 2 socks5 client, 3 ss-none client)
func vfC06_PlainUnpackers() {
	u := vfCase("u")
	f, n, r := vfInt("front"), vfInt("len"), vfInt("rear")
	vfAssume(f >= 0 && f <= 64 && n >= 0 && n <= 300 && r >= 0 && r <= 16)
	b := make([]byte, f+n+r)
	copy(b[f:], vfBytes("packet", n))
	server := netip.AddrPortFrom(netip.AddrFrom4([4]byte{192, 0, 2, 1}), 1080)
	src := server
	if vfBool("otherSource") {
		src = netip.AddrPortFrom(netip.AddrFrom4([4]byte{192, 0, 2, 9}), 1080)
	}
	var ps, pl int
	var err error
	var target conn.Addr
	var from netip.AddrPort
	switch u {
	case 0:
		var x Socks5PacketServerUnpacker
		target, ps, pl, err = x.UnpackInPlace(b, src, f, n)
	case 1:
		var x ShadowsocksNonePacketServerUnpacker
		target, ps, pl, err = x.UnpackInPlace(b, src, f, n)
	case 2:
		from, ps, pl, err = NewSocks5PacketClientUnpacker(server).UnpackInPlace(b, src, f, n)
	case 3:
		from, ps, pl, err = NewShadowsocksNonePacketClientUnpacker(server).UnpackInPlace(b, src, f, n)
	}
	if err != nil {
		vfReach("refused")
		return
	}
	vfAssert(ps >= f && pl >= 0 && ps+pl == f+n, "the payload is the tail of the datagram")
	if u <= 1 {
		vfAssert(target.IsValid(), "an accepted datagram names a valid target")
	} else {
		vfAssert(src == server, "replies are accepted only from the server")
		vfAssert(from.IsValid(), "an accepted reply names a valid source")
	}
	vfReach("end")
}

package direct

import (
	"context"
	"net/netip"

	"github.com/database64128/shadowsocks-go/conn"
)

// C11 — no datagram is ever sent to a destination that belongs to another session, however name
// resolution interleaves: two sessions of one direct UDP client pack datagrams to different domain
// targets concurrently (every interleaving at the granularity of accesses to the sessions' packer
// objects and of the name lookups, bounded preemptions).
func vfC11_PackerIsolation() {
	vfSetResolve("a.test", [4]byte{10, 0, 0, 1})
	vfSetResolve("b.test", [4]byte{10, 0, 0, 2})
	c := NewDirectUDPClient("d", "ip4", 1500, conn.ListenConfig{})
	_, s1, err1 := c.NewSession(context.Background())
	_, s2, err2 := c.NewSession(context.Background())
	vfAssert(err1 == nil && err2 == nil, "sessions")
	vfPreemptOnAccess(s1.Packer)
	vfPreemptOnAccess(s2.Packer)
	ta := conn.MustAddrFromDomainPort("a.test", 53)
	tb := conn.MustAddrFromDomainPort("b.test", 443)
	var d1, d2 netip.AddrPort
	var e1, e2 error
	b1, b2 := make([]byte, 64), make([]byte, 64)
	vfSchedule(vfCase("preempt"))
	vfGo("s1", func() { d1, _, _, e1 = s1.Packer.PackInPlace(context.Background(), b1, ta, 0, 16) })
	vfGo("s2", func() { d2, _, _, e2 = s2.Packer.PackInPlace(context.Background(), b2, tb, 0, 16) })
	vfJoin()
	vfAssert(e1 == nil && e2 == nil, "both datagrams packed")
	vfAssert(d1 == netip.AddrPortFrom(netip.AddrFrom4([4]byte{10, 0, 0, 1}), 53), "session 1's datagram goes to the resolution of its own target")
	vfAssert(d2 == netip.AddrPortFrom(netip.AddrFrom4([4]byte{10, 0, 0, 2}), 443), "session 2's datagram goes to the resolution of its own target")
	vfReach("end")
}

// vfC11_PackerSequence: one session sends a sequence of datagrams to targets drawn from two
// resolvable domains, one unresolvable domain and one IP address, with symbolic ports.  Every
// datagram that is packed leaves towards the resolution of its own target; a datagram whose target
// does not resolve is not sent at all - whatever was sent or failed before it.
//   cases: steps
func vfC11_PackerSequence() {
	vfSetResolve("a.test", [4]byte{10, 0, 0, 1})
	vfSetResolve("b.test", [4]byte{10, 0, 0, 2})
	c := NewDirectUDPClient("d", "ip4", 1500, conn.ListenConfig{})
	_, s, err := c.NewSession(context.Background())
	vfAssert(err == nil, "session")
	steps := vfCase("steps")
	for i := 0; i < steps; i++ {
		k := int(vfConcretize(uint64(vfU8("target")), 0, 3))
		port := vfU16("port")
		var t conn.Addr
		var want netip.Addr
		switch k {
		case 0:
			t, want = conn.MustAddrFromDomainPort("a.test", port), netip.AddrFrom4([4]byte{10, 0, 0, 1})
		case 1:
			t, want = conn.MustAddrFromDomainPort("b.test", port), netip.AddrFrom4([4]byte{10, 0, 0, 2})
		case 2:
			t = conn.MustAddrFromDomainPort("nx.test", port)
		case 3:
			want = netip.AddrFrom4([4]byte{192, 0, 2, 7})
			t = conn.AddrFromIPAndPort(want, port)
		}
		b := make([]byte, 64)
		d, start, n, err := s.Packer.PackInPlace(context.Background(), b, t, 8, 16)
		if k == 2 {
			vfAssert(err != nil, "a datagram whose target does not resolve is not sent")
			continue
		}
		vfAssert(err == nil && start == 8 && n == 16, "datagram packed with its payload in place")
		vfAssert(d.Port() == port, "destination port is the target's")
		vfAssert(d.Addr().Unmap() == want, "the datagram leaves towards the resolution of its own target")
	}
	vfReach("end")
}

package ssm

import (
	"encoding/json"
	"net/http"
	"net/http/httptest"
	"net/url"

	"github.com/database64128/shadowsocks-go/cred"
	"github.com/database64128/shadowsocks-go/ss2022"
	"github.com/database64128/shadowsocks-go/stats"
	"go.uber.org/zap"
)

// C14 — the management API's per-server and per-user answers show exactly the collected figures.

// vfGet calls a handler and returns the numeric fields of its JSON answer.  In the symbolic
// executor the HTTP plumbing is stubbed (PathValue, EncodeResponse capture the values); natively
// the real net/http machinery runs.
func vfGet(h func(http.ResponseWriter, *http.Request) (int, error), pathKey, pathVal string, fields []string) (status int, vals []uint64) {
	if vfSymbolic() {
		vfSetPathValue(pathKey, pathVal)
		status, _ = h(nil, &http.Request{URL: &url.URL{}})
		for _, f := range fields {
			vals = append(vals, vfCapturedU64(f))
		}
		return
	}
	rec := httptest.NewRecorder()
	req := httptest.NewRequest(http.MethodGet, "/", nil)
	req.SetPathValue(pathKey, pathVal)
	status, _ = h(rec, req)
	var m map[string]any
	_ = json.Unmarshal(rec.Body.Bytes(), &m)
	for _, f := range fields {
		x, _ := m[f].(float64)
		vals = append(vals, uint64(x))
	}
	return
}

var vfTrafficFields = []string{"downlinkPackets", "downlinkBytes", "uplinkPackets", "uplinkBytes", "tcpSessions", "udpSessions"}

func vfC14_API() {
	path := vfStorePath()
	kA, kB := vfBytes("KA", 16), vfBytes("KB", 16)
	ne := false
	for i := range kA {
		ne = vfOr(ne, kA[i] != kB[i])
	}
	vfAssume(ne)
	vfWriteStore(path, []string{"alice", "bob"}, [][]byte{kA, kB})
	var tcp, udp ss2022.CredStore
	cms, err := cred.NewManager(zap.NewNop()).RegisterServer("s", path, 16, &tcp, &udp)
	vfAssert(err == nil, "store loads")
	sc := stats.NewServerCollector()
	a1, a2, b1, b2, c1, c2 := vfU64("a1"), vfU64("a2"), vfU64("b1"), vfU64("b2"), vfU64("c1"), vfU64("c2")
	for _, x := range []uint64{a1, a2, b1, b2, c1, c2} {
		vfAssume(x < 1<<48) // JSON numbers are decoded through float64 in the native replay
	}
	sc.CollectTCPSession("alice", a1, a2)
	sc.CollectTCPSession("bob", b1, b2)
	sc.CollectUDPSessionDownlink("bob", c1, c2)
	sc.CollectUDPSessionUplink("", c2, c1)
	srv := Server{CredentialManager: cms, StatsCollector: sc}

	st, v := vfGet(func(w http.ResponseWriter, r *http.Request) (int, error) { return handleGetStats(w, r, sc) }, "server", "s", vfTrafficFields)
	vfAssert(st == http.StatusOK, "stats answer")
	vfAssert(v[0] == c1 && v[1] == a1+b1+c2 && v[2] == c2 && v[3] == a2+b2+c1 && v[4] == 2 && v[5] == 1, "per-server answer shows the server totals")

	st, v = vfGet(func(w http.ResponseWriter, r *http.Request) (int, error) { return handleGetUser(w, r, srv) }, "username", "alice", vfTrafficFields)
	vfAssert(st == http.StatusOK, "user answer")
	vfAssert(v[0] == 0 && v[1] == a1 && v[2] == 0 && v[3] == a2 && v[4] == 1 && v[5] == 0, "per-user answer shows exactly that user's figures")

	st, v = vfGet(func(w http.ResponseWriter, r *http.Request) (int, error) { return handleGetUser(w, r, srv) }, "username", "bob", vfTrafficFields)
	vfAssert(st == http.StatusOK, "user answer")
	vfAssert(v[0] == c1 && v[1] == b1+c2 && v[2] == 0 && v[3] == b2 && v[4] == 1 && v[5] == 1, "per-user answer shows exactly that user's figures")

	st, _ = vfGet(func(w http.ResponseWriter, r *http.Request) (int, error) { return handleGetUser(w, r, srv) }, "username", "mallory", nil)
	vfAssert(st == http.StatusNotFound, "unknown user is not found")
	vfReach("end")
}

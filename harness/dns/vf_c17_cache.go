package dns

import (
	"context"
	"net/netip"
	"time"

	"go.uber.org/zap"
)

// C17 — lookup histories against a fake clock crossing TTL boundaries, with a bounded cache.
//
// vfC17_Cache: three lookups through the real Resolver.Lookup (cache, TCP transport, parseMsg)
// against a scripted upstream.  The clock advances by a symbolic amount (1 ns resolution) before
// every lookup; TTLs are symbolic.
//   cap:   capacity of the cache (1 or 2)
//   names: 0 = X X X;  1 = X Y X  (Y may evict X when cap is 1)
//   up:    bit i-1 set = the upstream is silent during lookup i (i = 2, 3); lookup 1 always answers
//
// What is asserted for every lookup i:
//   * the upstream is contacted whenever the entry's time has run out (now after t_k + min TTL of
//     the answers it was built from) or the name has no entry;
//   * when the upstream was contacted and answered, the result is the new answer;
//   * when it was contacted and failed, the lookup fails unless the cache still holds a previous
//     answer *for the same name*, and anything served is that answer;
//   * when it was not contacted, the result is the latest answer obtained for that name and its
//     time has not run out;
//   * a result never contains another name's addresses.
type vfC17Ans struct {
	a4      [4]byte
	a16     [16]byte
	expires time.Time
	valid   bool
}

func vfC17_Cache() {
	capacity := vfCase("cap")
	names := vfCase("names")
	up := vfCase("up")
	sec := vfI64("sec0")
	nsec := vfI64("nsec0")
	vfAssume(sec >= 946684800 && sec <= 4000000000 && nsec >= 0 && nsec < 1000000000)

	seq := []string{"x.example", "x.example", "x.example"}
	if names == 1 {
		seq[1] = "y.example"
	}
	d := &vfDNSDialer{}
	// one scripted connection per upstream contact; a silent upstream consumes two connections
	// (the resolver retries once), an answering one consumes one
	type contact struct {
		a, aaaa *vfMsgSpec
		silent  bool
	}
	var plan [3]contact
	for i := 0; i < 3; i++ {
		plan[i].silent = i > 0 && up&(1<<uint(i-1)) != 0
		plan[i].a = &vfMsgSpec{id: 4, response: true, ra: true, answers: []vfAns{vfSymAns(0)}}
		plan[i].aaaa = &vfMsgSpec{id: 6, response: true, ra: true, answers: []vfAns{vfSymAns(1)}}
		// TTLs up to 300 s keep the histories inside three steps of at most 400 s
		vfAssume(plan[i].a.answers[0].ttl <= 300 && plan[i].aaaa.answers[0].ttl <= 300)
	}
	r := NewResolver("r", capacity, netip.AddrPortFrom(netip.AddrFrom4([4]byte{9, 9, 9, 9}), 53), d, nil, zap.NewNop())

	// reference: what the latest answer for each name is, and what the cache may still hold
	latest := map[string]*vfC17Ans{}
	var lru []string // names the cache holds, least recently used first (reference model of the bound)
	touch := func(n string, insert bool) {
		for i, m := range lru {
			if m == n {
				lru = append(lru[:i], lru[i+1:]...)
				lru = append(lru, n)
				return
			}
		}
		if !insert {
			return
		}
		if len(lru) >= capacity {
			lru = lru[1:]
		}
		lru = append(lru, n)
	}
	holds := func(n string) bool {
		for _, m := range lru {
			if m == n {
				return true
			}
		}
		return false
	}

	for i := 0; i < 3; i++ {
		ds, dn := vfI64("dSec"), vfI64("dNsec")
		vfAssume(ds >= 0 && ds <= 400 && dn >= 0 && dn < 1000000000)
		sec += ds
		nsec += dn
		if nsec >= 1000000000 {
			nsec -= 1000000000
			sec++
		}
		vfClock(sec, nsec)
		now := time.Now()
		name := seq[i]
		p := &plan[i]
		// prepare the script for the connections this lookup may open
		base := len(d.sent)
		d.scripts = d.scripts[:base]
		if p.silent {
			d.scripts = append(d.scripts, nil, nil)
		} else {
			d.scripts = append(d.scripts, append(vfFramed(p.a), vfFramed(p.aaaa)...))
		}
		res, err := r.Lookup(context.Background(), name)
		contacted := len(d.sent) > base
		prev := latest[name]
		had := prev != nil && holds(name)
		if had {
			touch(name, false) // Get refreshes the entry's position
		}

		if !had || now.After(prev.expires) {
			vfAssert(contacted, "the upstream is asked again once the smallest TTL has elapsed (or the name has no entry)")
		}
		switch {
		case contacted && !p.silent:
			vfAssert(err == nil, "an answering upstream makes the lookup succeed")
			vfAssert(len(res.a) == 1 && res.a[0] == netip.AddrFrom4(p.a.answers[0].a4), "the fresh A answer is returned")
			vfAssert(len(res.aaaa) == 1 && res.aaaa[0] == netip.AddrFrom16(p.aaaa.answers[0].a16), "the fresh AAAA answer is returned")
			ttl := p.a.answers[0].ttl
			if p.aaaa.answers[0].ttl < ttl {
				ttl = p.aaaa.answers[0].ttl
			}
			latest[name] = &vfC17Ans{a4: p.a.answers[0].a4, a16: p.aaaa.answers[0].a16, expires: now.Add(time.Duration(ttl) * time.Second), valid: true}
			touch(name, true)
		case contacted && p.silent:
			if had {
				// serving the stale entry is permitted (RFC 8767), not demanded; what is served must be this name's own
				if err == nil {
					vfAssert(len(res.a) == 1 && res.a[0] == netip.AddrFrom4(prev.a4) && len(res.aaaa) == 1 && res.aaaa[0] == netip.AddrFrom16(prev.a16), "a stale entry served after a failure is this name's own previous answer")
				}
			} else {
				vfAssert(err != nil, "no entry and no answer: the lookup fails")
			}
		default:
			vfAssert(had && !now.After(prev.expires), "a cached result is reused only until the smallest TTL has elapsed")
			vfAssert(err == nil && len(res.a) == 1 && res.a[0] == netip.AddrFrom4(prev.a4) && len(res.aaaa) == 1 && res.aaaa[0] == netip.AddrFrom16(prev.a16), "the cached result is this name's latest answer")
		}
	}
	vfReach("end")
}

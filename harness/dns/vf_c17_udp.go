package dns

import (
	"context"
	"net/netip"

	"github.com/database64128/shadowsocks-go/conn"
	"github.com/database64128/shadowsocks-go/direct"
	"go.uber.org/zap"
)

// C17 over UDP: the whole Lookup runs against a scripted upstream on the modelled loopback
// network (real sockets natively).  Addresses come only from the configured upstream's answers:
// a datagram from any other source is ignored even when it is a well-formed answer.
//   script 0: the upstream answers both queries
//   script 1: before the upstream answers, a well-formed answer for the A query arrives from
//             another address (an off-path spoofer); the upstream then answers both queries
//   script 2: the spoofer answers both queries before the upstream does
func vfC17_UDP() {
	script := vfCase("script")
	vfClock(1000000000, 0)
	upstream, spoofer := vfNetSocket(), vfNetSocket()
	server := netip.AddrPortFrom(netip.AddrFrom4([4]byte{127, 0, 0, 1}), vfNetPort(upstream))
	client := direct.NewDirectUDPClient("direct", "ip4", 1500, conn.ListenConfig{})
	r := NewResolver("r", 4, server, nil, client, zap.NewNop())

	a := &vfMsgSpec{id: 4, response: true, ra: true, isUDP: true, answers: []vfAns{vfSymAns(0)}}
	aaaa := &vfMsgSpec{id: 6, response: true, ra: true, isUDP: true, answers: []vfAns{vfSymAns(1)}}
	evil := &vfMsgSpec{id: 4, response: true, ra: true, isUDP: true, answers: []vfAns{{kind: 0, ttl: 300, a4: [4]byte{6, 6, 6, 6}}}}
	evil6 := &vfMsgSpec{id: 6, response: true, ra: true, isUDP: true, answers: []vfAns{{kind: 1, ttl: 300, a16: [16]byte{0: 0x66, 15: 6}}}}
	vfAssume(a.answers[0].a4 != [4]byte{6, 6, 6, 6})
	vfAssume(aaaa.answers[0].a16 != evil6.answers[0].a16)

	var res Result
	var err error
	vfGo("lookup", func() { res, err = r.Lookup(context.Background(), "example.com") })

	// the upstream sees the two queries
	buf := make([]byte, 512)
	n1, from, ok1 := vfNetRecv(upstream, buf)
	vfAssert(ok1 && n1 > 12, "first query reaches the upstream")
	id1 := uint16(buf[0])<<8 | uint16(buf[1])
	n2, from2, ok2 := vfNetRecv(upstream, buf)
	vfAssert(ok2 && n2 > 12 && from2 == from, "second query reaches the upstream from the same socket")
	id2 := uint16(buf[0])<<8 | uint16(buf[1])
	vfAssert(id1 != id2 && (id1 == 4 || id1 == 6) && (id2 == 4 || id2 == 6), "one A and one AAAA query")

	if script >= 1 {
		vfNetSend(spoofer, from, vfBuild(evil))
	}
	if script == 2 {
		vfNetSend(spoofer, from, vfBuild(evil6))
		vfQuiesce()
	}
	vfNetSend(upstream, from, vfBuild(a))
	vfNetSend(upstream, from, vfBuild(aaaa))
	vfJoin()
	vfAssert(err == nil, "the lookup succeeds with the upstream's answers")
	vfAssert(len(res.a) == 1 && res.a[0] == netip.AddrFrom4(a.answers[0].a4), "the A address is the upstream's, not the spoofer's")
	vfAssert(len(res.aaaa) == 1 && res.aaaa[0] == netip.AddrFrom16(aaaa.answers[0].a16), "the AAAA address is the upstream's")
	vfReach("end")
}

package dns

import (
	"context"
	"net/netip"
	"time"

	"github.com/database64128/shadowsocks-go/conn"
	"github.com/database64128/shadowsocks-go/netio"
	"go.uber.org/zap"
	"golang.org/x/net/dns/dnsmessage"
)

// C17 — message logic of the resolver: addresses come only from accepted responses to its own two
// queries, and a result never outlives the smallest TTL (or the failure / negative caching time).

var vfDomain = dnsmessage.MustNewName("example.com.")

type vfAns struct {
	kind int // 0 A, 1 AAAA, 2 CNAME (skipped by the resolver)
	ttl  uint32
	a4   [4]byte
	a16  [16]byte
}

type vfMsgSpec struct {
	id        uint16
	response  bool
	ra        bool
	truncated bool
	rcode     dnsmessage.RCode
	answers   []vfAns
	soaTTL    uint32
	hasSOA    bool
	isUDP     bool
}

func vfBuild(m *vfMsgSpec) []byte {
	b := dnsmessage.NewBuilder(make([]byte, 0, 512), dnsmessage.Header{ID: m.id, Response: m.response, RecursionAvailable: m.ra, Truncated: m.truncated, RCode: m.rcode})
	b.EnableCompression()
	qt := dnsmessage.TypeA
	if m.id == 6 {
		qt = dnsmessage.TypeAAAA
	}
	vfMust(b.StartQuestions())
	vfMust(b.Question(dnsmessage.Question{Name: vfDomain, Type: qt, Class: dnsmessage.ClassINET}))
	vfMust(b.StartAnswers())
	for _, a := range m.answers {
		switch a.kind {
		case 0:
			vfMust(b.AResource(dnsmessage.ResourceHeader{Name: vfDomain, Class: dnsmessage.ClassINET, TTL: a.ttl}, dnsmessage.AResource{A: a.a4}))
		case 1:
			vfMust(b.AAAAResource(dnsmessage.ResourceHeader{Name: vfDomain, Class: dnsmessage.ClassINET, TTL: a.ttl}, dnsmessage.AAAAResource{AAAA: a.a16}))
		default:
			vfMust(b.CNAMEResource(dnsmessage.ResourceHeader{Name: vfDomain, Class: dnsmessage.ClassINET, TTL: a.ttl}, dnsmessage.CNAMEResource{CNAME: vfDomain}))
		}
	}
	vfMust(b.StartAuthorities())
	if m.hasSOA {
		vfMust(b.SOAResource(dnsmessage.ResourceHeader{Name: vfDomain, Class: dnsmessage.ClassINET, TTL: m.soaTTL}, dnsmessage.SOAResource{NS: vfDomain, MBox: vfDomain}))
	}
	msg, err := b.Finish()
	vfMust(err)
	return msg
}

func vfMust(err error) {
	if err != nil {
		panic(err)
	}
}

func vfSymAns(kind int) vfAns {
	a := vfAns{kind: kind, ttl: vfU32("ttl")}
	copy(a.a4[:], vfBytes("a4", 4))
	copy(a.a16[:], vfBytes("a16", 16))
	return a
}

// vfC17_Messages: two messages (one per query ID, in the order given by case "order") with
// symbolic flags, rcode and TTLs; cases pick the answer layouts.
//   order 0: ID 4 then ID 6; order 1: ID 6 then ID 4
//   shape 0: [A] / [AAAA];  1: [A,A] / failure rcode;  2: failure rcode / [AAAA];  3: [CNAME,A] / NXDOMAIN+SOA
func vfC17_Messages() {
	order := vfCase("order")
	shape := vfCase("shape")
	sec := vfI64("sec0")
	vfAssume(sec >= 946684800 && sec <= 4000000000)
	vfClock(sec, 0)
	now := time.Now()
	m4 := &vfMsgSpec{id: 4, response: true, ra: true, isUDP: vfBool("udp4"), truncated: vfBool("tc4")}
	m6 := &vfMsgSpec{id: 6, response: true, ra: true, isUDP: vfBool("udp6"), truncated: vfBool("tc6")}
	fail := dnsmessage.RCodeServerFailure
	switch shape {
	case 0:
		m4.answers = []vfAns{vfSymAns(0)}
		m6.answers = []vfAns{vfSymAns(1)}
	case 1:
		m4.answers = []vfAns{vfSymAns(0), vfSymAns(0)}
		m6.rcode = fail
	case 2:
		m4.rcode = fail
		m6.answers = []vfAns{vfSymAns(1)}
	default:
		m4.answers = []vfAns{vfSymAns(2), vfSymAns(0)}
		m6.rcode = dnsmessage.RCodeNameError
		m6.hasSOA = true
		m6.soaTTL = vfU32("soaTTL")
	}
	msgs := []*vfMsgSpec{m4, m6}
	if order == 1 {
		msgs = []*vfMsgSpec{m6, m4}
	}
	var r resultBuilder
	for _, m := range msgs {
		h, err := r.parseMsg(vfBuild(m), m.isUDP)
		vfAssert(err == nil, "well-formed response to one of the two queries is accepted")
		vfAssert(h.ID == m.id, "header returned")
	}
	// done flags: a truncated UDP response does not complete its query
	vfAssert(r.v4done == !(m4.truncated && m4.isUDP), "v4 done unless truncated over UDP")
	vfAssert(r.v6done == !(m6.truncated && m6.isUDP), "v6 done unless truncated over UDP")
	// addresses are exactly those of the responses
	nA := 0
	for _, a := range m4.answers {
		if a.kind == 0 {
			vfAssert(nA < len(r.a) && r.a[nA] == netip.AddrFrom4(a.a4), "A addresses are exactly those in the response, in order")
			nA++
		}
	}
	vfAssert(len(r.a) == nA, "no A address is invented")
	nAAAA := 0
	for _, a := range m6.answers {
		if a.kind == 1 {
			vfAssert(nAAAA < len(r.aaaa) && r.aaaa[nAAAA] == netip.AddrFrom16(a.a16), "AAAA addresses are exactly those in the response, in order")
			nAAAA++
		}
	}
	vfAssert(len(r.aaaa) == nAAAA, "no AAAA address is invented")
	// TTL: the result expires no later than the smallest TTL of any record used, nor later than
	// the failure caching time when one of the answers was a failure
	for _, m := range msgs {
		for _, a := range m.answers {
			lim := now.Add(time.Duration(a.ttl) * time.Second)
			vfAssert(!r.expiresAt.After(lim), "a cached result is reused only until the smallest TTL has elapsed")
		}
		if m.rcode == fail {
			vfAssert(!r.expiresAt.After(now.Add(rcodeFailureCachingDuration)), "failure responses are cached no longer than the failure caching time")
		}
	}
	vfAssert(!r.expiresAt.IsZero(), "an expiry time is set")
	vfReach("end")
}

// vfC17_Rejects: responses that must not be used.
func vfC17_Rejects() {
	vfClock(1000000000, 0)
	var r resultBuilder
	kind := vfCase("kind")
	m := &vfMsgSpec{id: 4, response: true, ra: true, answers: []vfAns{vfSymAns(0)}}
	switch kind {
	case 0:
		m.id = vfU16("id")
		vfAssume(m.id != 4 && m.id != 6)
	case 1:
		m.response = false
	case 2:
		m.ra = false
	default:
		m.rcode = dnsmessage.RCode(vfU16("rcode") & 0xF)
		vfAssume(m.rcode > dnsmessage.RCodeRefused)
	}
	_, err := r.parseMsg(vfBuild(m), vfBool("udp"))
	vfAssert(err != nil, "foreign transaction IDs, non-responses, RA=0 and unknown rcodes are errors")
	vfAssert(!r.v4done && !r.v6done, "a rejected message completes nothing")
	vfAssert(len(r.a) == 0 && len(r.aaaa) == 0, "a rejected message contributes no addresses")
	vfReach("end")
}

// vfDNSDialer is the resolver's TCP client: every connection gets a scripted response stream.
type vfDNSDialer struct {
	sent    [][]byte // query bytes sent with each connection
	scripts [][]byte // response bytes served on each connection
}

func (d *vfDNSDialer) NewStreamDialer() (netio.StreamDialer, netio.StreamDialerInfo) {
	return d, netio.StreamDialerInfo{Name: "dns", NativeInitialPayload: true}
}

func (d *vfDNSDialer) DialStream(ctx context.Context, addr conn.Addr, payload []byte) (netio.Conn, error) {
	k := len(d.sent)
	d.sent = append(d.sent, append([]byte{}, payload...))
	c := &vfConn{}
	if k < len(d.scripts) {
		c.data = d.scripts[k]
	}
	return c, nil
}

func vfFramed(m *vfMsgSpec) []byte {
	msg := vfBuild(m)
	return append([]byte{byte(len(msg) >> 8), byte(len(msg))}, msg...)
}

// vfQueryIDs lists the transaction IDs of the length-prefixed queries in b.
func vfQueryIDs(b []byte) (ids []uint16) {
	for len(b) >= 4 {
		n := int(b[0])<<8 | int(b[1])
		ids = append(ids, uint16(b[2])<<8|uint16(b[3]))
		if 2+n > len(b) {
			break
		}
		b = b[2+n:]
	}
	return
}

// vfC17_TCP: a whole Lookup over TCP against scripted upstream behaviours.
//   script 0: both answers on the first connection
//   script 1: first connection answers only A then closes; the retry must ask only AAAA
//   script 2: first connection answers only AAAA then closes; the retry must ask only A
//   script 3: first connection closes in the middle of a message: failure, nothing poisoned
//   script 4: nothing is answered on either connection: failure after at most two connections
func vfC17_TCP() {
	script := vfCase("script")
	vfClock(1000000000, 0)
	a := &vfMsgSpec{id: 4, response: true, ra: true, answers: []vfAns{vfSymAns(0)}}
	aaaa := &vfMsgSpec{id: 6, response: true, ra: true, answers: []vfAns{vfSymAns(1)}}
	d := &vfDNSDialer{}
	switch script {
	case 0:
		d.scripts = [][]byte{append(vfFramed(a), vfFramed(aaaa)...)}
	case 1:
		d.scripts = [][]byte{vfFramed(a), vfFramed(aaaa)}
	case 2:
		d.scripts = [][]byte{vfFramed(aaaa), vfFramed(a)}
	case 3:
		f := vfFramed(a)
		cut := vfInt("cut")
		vfAssume(cut >= 1 && cut < len(f))
		d.scripts = [][]byte{f[:cut], vfFramed(aaaa)}
	default:
		d.scripts = [][]byte{nil, nil}
	}
	r := NewResolver("r", 4, netip.AddrPortFrom(netip.AddrFrom4([4]byte{9, 9, 9, 9}), 53), d, nil, zap.NewNop())
	res, err := r.Lookup(context.Background(), "example.com")
	vfAssert(len(d.sent) >= 1 && len(d.sent) <= 2, "at most two TCP attempts")
	first := vfQueryIDs(d.sent[0])
	vfAssert(len(first) == 2 && first[0] == 4 && first[1] == 6, "the first attempt asks both queries")
	switch script {
	case 0:
		vfAssert(err == nil && len(d.sent) == 1, "both answered at once: no retry")
	case 1, 2:
		vfAssert(len(d.sent) == 2, "one query unanswered: retried once")
		ids := vfQueryIDs(d.sent[1])
		want := uint16(6)
		if script == 2 {
			want = 4
		}
		vfAssert(len(ids) == 1 && ids[0] == want, "the retry asks only the unanswered query")
		vfAssert(err == nil, "both answers obtained: the lookup succeeds")
	case 3:
		vfAssert(err != nil, "a connection closed in the middle of a message makes the lookup fail")
		vfAssert(len(d.sent) == 1, "no retry after a broken message")
	default:
		vfAssert(err != nil && len(d.sent) == 2, "silence on both attempts: failure")
	}
	if err == nil {
		vfAssert(len(res.a) == 1 && res.a[0] == netip.AddrFrom4(a.answers[0].a4), "A address is the upstream's")
		vfAssert(len(res.aaaa) == 1 && res.aaaa[0] == netip.AddrFrom16(aaaa.answers[0].a16), "AAAA address is the upstream's")
	}
	vfReach("end")
}

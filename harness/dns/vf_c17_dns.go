package dns

import (
	"net/netip"
	"time"

	"golang.org/x/net/dns/dnsmessage"
)

// C17 — message logic of the resolver: addresses come only from accepted responses to its own two
// queries, and a result never outlives the smallest TTL (or the failure / negative caching time).

var vfDomain = dnsmessage.MustNewName("example.com.")

type vfAns struct {
	kind int // 0 A, 1 AAAA, 2 CNAME (skipped by the resolver)
	ttl  uint32
	a4   [4]byte
	a16  [16]byte
}

type vfMsgSpec struct {
	id        uint16
	response  bool
	ra        bool
	truncated bool
	rcode     dnsmessage.RCode
	answers   []vfAns
	soaTTL    uint32
	hasSOA    bool
	isUDP     bool
}

func vfBuild(m *vfMsgSpec) []byte {
	b := dnsmessage.NewBuilder(make([]byte, 0, 512), dnsmessage.Header{ID: m.id, Response: m.response, RecursionAvailable: m.ra, Truncated: m.truncated, RCode: m.rcode})
	b.EnableCompression()
	qt := dnsmessage.TypeA
	if m.id == 6 {
		qt = dnsmessage.TypeAAAA
	}
	vfMust(b.StartQuestions())
	vfMust(b.Question(dnsmessage.Question{Name: vfDomain, Type: qt, Class: dnsmessage.ClassINET}))
	vfMust(b.StartAnswers())
	for _, a := range m.answers {
		switch a.kind {
		case 0:
			vfMust(b.AResource(dnsmessage.ResourceHeader{Name: vfDomain, Class: dnsmessage.ClassINET, TTL: a.ttl}, dnsmessage.AResource{A: a.a4}))
		case 1:
			vfMust(b.AAAAResource(dnsmessage.ResourceHeader{Name: vfDomain, Class: dnsmessage.ClassINET, TTL: a.ttl}, dnsmessage.AAAAResource{AAAA: a.a16}))
		default:
			vfMust(b.CNAMEResource(dnsmessage.ResourceHeader{Name: vfDomain, Class: dnsmessage.ClassINET, TTL: a.ttl}, dnsmessage.CNAMEResource{CNAME: vfDomain}))
		}
	}
	vfMust(b.StartAuthorities())
	if m.hasSOA {
		vfMust(b.SOAResource(dnsmessage.ResourceHeader{Name: vfDomain, Class: dnsmessage.ClassINET, TTL: m.soaTTL}, dnsmessage.SOAResource{NS: vfDomain, MBox: vfDomain}))
	}
	msg, err := b.Finish()
	vfMust(err)
	return msg
}

func vfMust(err error) {
	if err != nil {
		panic(err)
	}
}

func vfSymAns(kind int) vfAns {
	a := vfAns{kind: kind, ttl: vfU32("ttl")}
	copy(a.a4[:], vfBytes("a4", 4))
	copy(a.a16[:], vfBytes("a16", 16))
	return a
}

// vfC17_Messages: two messages (one per query ID, in the order given by case "order") with
// symbolic flags, rcode and TTLs; cases pick the answer layouts.
//   order 0: ID 4 then ID 6; order 1: ID 6 then ID 4
//   shape 0: [A] / [AAAA];  1: [A,A] / failure rcode;  2: failure rcode / [AAAA];  3: [CNAME,A] / NXDOMAIN+SOA
func vfC17_Messages() {
	order := vfCase("order")
	shape := vfCase("shape")
	sec := vfI64("sec0")
	vfAssume(sec >= 946684800 && sec <= 4000000000)
	vfClock(sec, 0)
	now := time.Now()
	m4 := &vfMsgSpec{id: 4, response: true, ra: true, isUDP: vfBool("udp4"), truncated: vfBool("tc4")}
	m6 := &vfMsgSpec{id: 6, response: true, ra: true, isUDP: vfBool("udp6"), truncated: vfBool("tc6")}
	fail := dnsmessage.RCodeServerFailure
	switch shape {
	case 0:
		m4.answers = []vfAns{vfSymAns(0)}
		m6.answers = []vfAns{vfSymAns(1)}
	case 1:
		m4.answers = []vfAns{vfSymAns(0), vfSymAns(0)}
		m6.rcode = fail
	case 2:
		m4.rcode = fail
		m6.answers = []vfAns{vfSymAns(1)}
	default:
		m4.answers = []vfAns{vfSymAns(2), vfSymAns(0)}
		m6.rcode = dnsmessage.RCodeNameError
		m6.hasSOA = true
		m6.soaTTL = vfU32("soaTTL")
	}
	msgs := []*vfMsgSpec{m4, m6}
	if order == 1 {
		msgs = []*vfMsgSpec{m6, m4}
	}
	var r resultBuilder
	for _, m := range msgs {
		h, err := r.parseMsg(vfBuild(m), m.isUDP)
		vfAssert(err == nil, "well-formed response to one of the two queries is accepted")
		vfAssert(h.ID == m.id, "header returned")
	}
	// done flags: a truncated UDP response does not complete its query
	vfAssert(r.v4done == !(m4.truncated && m4.isUDP), "v4 done unless truncated over UDP")
	vfAssert(r.v6done == !(m6.truncated && m6.isUDP), "v6 done unless truncated over UDP")
	// addresses are exactly those of the responses
	nA := 0
	for _, a := range m4.answers {
		if a.kind == 0 {
			vfAssert(nA < len(r.a) && r.a[nA] == netip.AddrFrom4(a.a4), "A addresses are exactly those in the response, in order")
			nA++
		}
	}
	vfAssert(len(r.a) == nA, "no A address is invented")
	nAAAA := 0
	for _, a := range m6.answers {
		if a.kind == 1 {
			vfAssert(nAAAA < len(r.aaaa) && r.aaaa[nAAAA] == netip.AddrFrom16(a.a16), "AAAA addresses are exactly those in the response, in order")
			nAAAA++
		}
	}
	vfAssert(len(r.aaaa) == nAAAA, "no AAAA address is invented")
	// TTL: the result expires no later than the smallest TTL of any record used, nor later than
	// the failure caching time when one of the answers was a failure
	for _, m := range msgs {
		for _, a := range m.answers {
			lim := now.Add(time.Duration(a.ttl) * time.Second)
			vfAssert(!r.expiresAt.After(lim), "a cached result is reused only until the smallest TTL has elapsed")
		}
		if m.rcode == fail {
			vfAssert(!r.expiresAt.After(now.Add(rcodeFailureCachingDuration)), "failure responses are cached no longer than the failure caching time")
		}
	}
	vfAssert(!r.expiresAt.IsZero(), "an expiry time is set")
	vfReach("end")
}

// vfC17_Rejects: responses that must not be used.
func vfC17_Rejects() {
	vfClock(1000000000, 0)
	var r resultBuilder
	kind := vfCase("kind")
	m := &vfMsgSpec{id: 4, response: true, ra: true, answers: []vfAns{vfSymAns(0)}}
	switch kind {
	case 0:
		m.id = vfU16("id")
		vfAssume(m.id != 4 && m.id != 6)
	case 1:
		m.response = false
	case 2:
		m.ra = false
	default:
		m.rcode = dnsmessage.RCode(vfU16("rcode") & 0xF)
		vfAssume(m.rcode > dnsmessage.RCodeRefused)
	}
	_, err := r.parseMsg(vfBuild(m), vfBool("udp"))
	vfAssert(err != nil, "foreign transaction IDs, non-responses, RA=0 and unknown rcodes are errors")
	vfAssert(!r.v4done && !r.v6done, "a rejected message completes nothing")
	vfAssert(len(r.a) == 0 && len(r.aaaa) == 0, "a rejected message contributes no addresses")
	vfReach("end")
}

package clientgroups

import (
	"context"
	"errors"
	"sync"
	"time"

	"go.uber.org/zap"
)

// C19 — client groups pick clients as their policy says.

type vfClient struct{ id int }

type vfWaitGroup = sync.WaitGroup

var vfErrProbe = errors.New("probe failed")

const (
	vfTimeout  = 5 * time.Second
	vfInterval = 30 * time.Second
)

// vfC19_Probe runs the REAL probe loop (goroutines, job channel, wait group, ticker) for `rounds`
// rounds with symbolic outcomes (success flag and latency per client per round) and checks the
// selection after every round against the documented policy.
// cases: policy (0 availability, 1 latency, 2 min-max-latency), clients (1..4), rounds
func vfC19_Probe() {
	policy := vfCase("policy")
	n := vfCase("clients")
	rounds := vfCase("rounds")
	clients := make([]vfClient, n)
	for i := range clients {
		clients[i].id = i
	}
	var sel atomicClientSelector[vfClient]
	sel.init(&clients[0])

	sec, nsec := int64(1000000000), int64(0)
	vfClock(sec, nsec)
	var curOK [4]bool
	var curSec, curNsec [4]int64 // latency of the current round per client
	pc := probeConfig[vfClient]{
		probe: func(ctx context.Context, c vfClient) error {
			// the probe takes curSec+curNsec of (fake) time
			sec += curSec[c.id]
			nsec += curNsec[c.id]
			if nsec >= 1000000000 {
				nsec -= 1000000000
				sec++
			}
			vfClock(sec, nsec)
			if !curOK[c.id] {
				return vfErrProbe
			}
			return nil
		},
		timeout:     vfTimeout,
		interval:    vfInterval,
		concurrency: min(2, n),
		clients:     clients,
	}
	ctx := context.Background()
	switch policy {
	case 0:
		go sel.probeAvailability(ctx, zap.NewNop(), pc)
	case 1:
		go sel.probeLatency(ctx, zap.NewNop(), pc)
	default:
		go sel.probeMinMaxLatency(ctx, zap.NewNop(), pc)
	}
	vfSettle()
	vfAssert(sel.Select().id == 0, "before the first probe round the first client is served")

	// reference state: retained history per client
	var okHist [4][64]bool
	var latHist [4][32]time.Duration
	// long = 0: every outcome of every round is symbolic (few rounds).
	// long = 1 or 2: histories longer than what the policies retain (32 / 64 rounds): client i
	// succeeds exactly in the rounds before (1) / from (2) a symbolic switch round k_i, with a
	// fixed latency per client.
	long := vfCase("long")
	var kSwitch [4]int
	var lSec, lNsec [4]int64
	if long != 0 {
		for i := 0; i < n; i++ {
			kSwitch[i] = vfInt("switchRound")
			vfAssume(kSwitch[i] >= 0 && kSwitch[i] <= rounds)
			lSec[i], lNsec[i] = int64(1+(i+long)%3), 0 // fixed, distinct latencies: only the switch rounds are symbolic
		}
	}
	for r := 0; r < rounds; r++ {
		for i := 0; i < n; i++ {
			if long != 0 {
				curOK[i] = (r < kSwitch[i]) == (long == 1)
				curSec[i], curNsec[i] = lSec[i], lNsec[i]
			} else {
				curOK[i] = vfBool("ok")
				curSec[i] = vfI64("latSec")
				curNsec[i] = vfI64("latNsec")
			}
			vfAssume(curSec[i] >= 0 && curSec[i] <= 9 && curNsec[i] >= 0 && curNsec[i] < 1000000000)
			okHist[i][r%64] = curOK[i]
			lat := time.Duration(curSec[i])*time.Second + time.Duration(curNsec[i])
			if !curOK[i] {
				lat = vfTimeout // a failed probe counts as the timeout
			}
			latHist[i][r%32] = lat
		}
		vfTick(vfInterval)
		vfSettle()
		// reference: first client in configuration order with the strictly best score
		best := 0
		switch policy {
		case 0:
			bestCount := 0
			for i := 0; i < n; i++ {
				cnt := 0
				for k := 0; k < 64; k++ {
					cnt += int(vfIte(okHist[i][k], 1, 0))
				}
				better := cnt > bestCount
				best = int(vfIte(better, uint64(i), uint64(best)))
				bestCount = int(vfIte(better, uint64(cnt), uint64(bestCount)))
			}
		case 1:
			bestAvg := vfTimeout
			for i := 0; i < n; i++ {
				var sum time.Duration
				for k := 0; k < 32; k++ {
					sum += latHist[i][k]
				}
				avg := sum / 32
				better := avg < bestAvg
				best = int(vfIte(better, uint64(i), uint64(best)))
				bestAvg = time.Duration(vfIte(better, uint64(avg), uint64(bestAvg)))
			}
		default:
			bestMax := vfTimeout
			for i := 0; i < n; i++ {
				var mx time.Duration
				for k := 0; k < 32; k++ {
					mx = time.Duration(vfIte(latHist[i][k] > mx, uint64(latHist[i][k]), uint64(mx)))
				}
				better := mx < bestMax
				best = int(vfIte(better, uint64(i), uint64(best)))
				bestMax = time.Duration(vfIte(better, uint64(mx), uint64(bestMax)))
			}
		}
		got := sel.Select().id
		vfAssert(got >= 0 && got < n, "a group never returns a client outside itself")
		vfAssert(got == best, "after a probe round the group serves the first client with the best score")
	}
	vfReach("end")
}

// vfC19_Static: round-robin from the initial state hands out clients in cyclic configuration order;
// random only returns members.
func vfC19_Static() {
	n := vfCase("clients")
	clients := make([]vfClient, n)
	for i := range clients {
		clients[i].id = i
	}
	var rr roundRobinClientSelector[vfClient]
	rr.init(clients)
	for k := 0; k < 2*n+1; k++ {
		vfAssert(rr.Select().id == k%n, "round-robin hands out clients in cyclic configuration order")
	}
	// from an arbitrary counter value: consecutive selections are consecutive positions
	c := vfU64("counter")
	vfAssume(c < 1<<62)
	rr.index.Store(uintptr(c))
	a := rr.Select().id
	b := rr.Select().id
	vfAssert(a >= 0 && a < n && b == (a+1)%n, "consecutive selections are consecutive positions")
	rnd := randomClientSelector[vfClient]{clients: clients}
	g := rnd.Select().id
	vfAssert(g >= 0 && g < n, "random only returns members")
	vfReach("end")
}

// vfC19_JobStep: ONE probe job from an ARBITRARY retained history and an arbitrary round number
// (so histories of any length, beyond the 32/64-round retention, are covered): exactly the slot
// of this round is overwritten with this round's outcome, every other slot is untouched.
func vfC19_JobStep() {
	ok := vfBool("ok")
	count := uint(vfU64("round"))
	var wg vfWaitGroup
	probe := func(ctx context.Context, c vfClient) error {
		if !ok {
			return vfErrProbe
		}
		return nil
	}
	// availability
	hist := uint(vfU64("history"))
	h0 := hist
	wg.Add(1)
	(&availabilityProbeJob[vfClient]{wg: &wg, probe: probe, timeout: vfTimeout, client: vfClient{0}, result: &hist, count: count}).Run(context.Background())
	bit := uint(1) << (count % 64)
	vfAssert((hist&bit != 0) == ok, "the round's slot records this round's outcome (a failed probe clears it)")
	vfAssert(hist&^bit == h0&^bit, "all other retained rounds are untouched")
	// latency: a failed probe counts as the timeout, a successful one as the elapsed time (0 here: the clock does not move)
	var lat [latencyProbeResultSize]time.Duration
	for i := range lat {
		lat[i] = time.Duration(vfI64("lat"))
	}
	l0 := lat
	wg.Add(1)
	(&latencyProbeJob[vfClient]{wg: &wg, probe: probe, timeout: vfTimeout, client: vfClient{0}, result: &lat, count: count}).Run(context.Background())
	slot := int(vfConcretize(uint64(count%latencyProbeResultSize), 0, latencyProbeResultSize-1))
	want := time.Duration(0)
	if !ok {
		want = vfTimeout
	}
	vfAssert(lat[slot] == want, "the round's latency slot records this round's outcome (failure = timeout)")
	w := int(vfConcretize(vfU64("other"), 0, latencyProbeResultSize-1))
	if w != slot {
		vfAssert(lat[w] == l0[w], "all other retained latencies are untouched")
	}
	vfReach("end")
}

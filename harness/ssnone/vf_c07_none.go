package ssnone

import (
	"context"

	"github.com/database64128/shadowsocks-go/conn"
	"github.com/database64128/shadowsocks-go/netio"
	"go.uber.org/zap"
)

// C07 — Shadowsocks "none": the client's dial (target T, payload P) makes the server observe
// exactly T, and P follows as the first bytes of the stream, for every address kind, payload
// length and transport fragmentation.

type vfDialer struct {
	c *vfConn
}

func (d *vfDialer) NewStreamDialer() (netio.StreamDialer, netio.StreamDialerInfo) {
	return d, netio.StreamDialerInfo{Name: "vf"}
}
func (d *vfDialer) DialStream(ctx context.Context, addr conn.Addr, payload []byte) (netio.Conn, error) {
	d.c = &vfConn{}
	d.c.out = append(d.c.out, payload...)
	return d.c, nil
}

// cases: kind (0 IPv4, 1 IPv6, 3 domain), frags
func vfC07_None() {
	kind := vfCase("kind")
	port := vfU16("port")
	var target conn.Addr
	switch kind {
	case 0:
		var a [4]byte
		copy(a[:], vfBytes("ip4", 4))
		target = conn.AddrFromIPAndPort(vfAddrFrom4(a), port)
	case 1:
		var a [16]byte
		copy(a[:], vfBytes("ip6", 16))
		ip := vfAddrFrom16(a)
		vfAssume(!ip.Is4In6())
		target = conn.AddrFromIPAndPort(ip, port)
	default:
		dl := vfInt("domainLen")
		vfAssume(dl >= 1 && dl <= 255)
		t, err := conn.AddrFromDomainPort(string(vfBytes("domain", dl)), port)
		vfAssert(err == nil, "domain accepted")
		target = t
	}
	n := vfInt("payloadLen")
	vfAssume(n >= 0 && n <= 2000)
	payload := vfBytes("payload", n)
	d := &vfDialer{}
	client := (&StreamClientConfig{Name: "c", InnerClient: d}).NewStreamClient()
	_, err := client.DialStream(context.Background(), target, payload)
	vfAssert(err == nil, "dial")
	sc := &vfConn{}
	sc.data = d.c.out
	sc.frags = vfCase("frags")
	req, err := StreamServer{}.HandleStream(sc, zap.NewNop())
	vfAssert(err == nil, "request accepted")
	vfAssert(req.Addr.IsIP() == target.IsIP() && req.Addr.Port() == target.Port(), "address kind and port")
	if target.IsIP() {
		vfAssert(req.Addr.IP() == target.IP(), "server observes the dialed IP")
	} else {
		g, w := req.Addr.Domain(), target.Domain()
		vfAssert(len(g) == len(w), "domain length")
		i := vfInt("domainWitness")
		vfAssume(i >= 0 && i < len(g))
		vfAssert(g[i] == w[i], "server observes the dialed domain")
	}
	pc, err := req.Proceed()
	vfAssert(err == nil, "proceed")
	buf := make([]byte, 4096)
	got := 0
	for k := 0; k < 4 && got < n; k++ {
		m, err := pc.Read(buf[got:])
		vfAssert(err == nil && m > 0, "payload readable")
		got += m
	}
	vfAssert(got == n, "the whole payload follows the address, nothing more")
	w := vfInt("w")
	vfAssume(w >= 0 && w < n)
	vfAssert(buf[w] == payload[w], "payload bytes arrive unchanged and in order")
	vfReach("end")
}

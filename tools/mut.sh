#!/bin/sh
# tools/mut.sh <repo-file> <sed-expression> <ID> [tier]: apply a mutation to /repo, run a check, revert.
f=$1; e=$2; id=$3; tier=${4:-quick}
cd /repo && sed -i "$e" "$f" && git diff --stat | head -3
if git diff --quiet; then echo "MUTATION DID NOT APPLY"; exit 2; fi
cd /verif && ./run $id $tier 2>&1 | cut -c1-260 | grep -E "VIOLATION|KNOWN|INCONCLUSIVE|exit" | head -${MUTLINES:-6}
cd /repo && git checkout -- . && git status --short

#!/bin/bash
# tools/confirm_seed.sh <ID> [<name>]: confirm a sub-agent's seeded change in its scratch worktree
# /tmp/wt_<ID> (patch applied there), then store it as /verif/seeded/<name>/.
id=$1; name=${2:-$1}; wt=/tmp/wt_$id; out=/verif/seeded/$name
export GOFLAGS=-mod=mod GOPROXY=off GOSUMDB=off GOTOOLCHAIN=local PATH=/opt/veriftools/go1.26.8/bin:$PATH
mkdir -p $out
cp $wt/_deliver/patch.diff $out/patch.diff
cp $wt/_deliver/demo_test.go $out/demo_test.go
cp $wt/_deliver/meta.json $out/agent_meta.json
cd $wt || exit 1
demo=$(git status --porcelain | grep 'zz_demo_test.go' | awk '{print $2}')
pkg=./$(dirname $demo)
echo "demo=$demo pkg=$pkg"
git diff --stat
go build ./... || { echo "BUILD FAILS"; exit 1; }
go test -vet=off -count=1 -run 'Demo' $pkg > $out/demo_with.log 2>&1; with=$?
git diff > /tmp/seed_$id.diff
git apply -R /tmp/seed_$id.diff
go test -vet=off -count=1 -run 'Demo' $pkg > $out/demo_without.log 2>&1; without=$?
git apply /tmp/seed_$id.diff
# the existing suite with the change (demo test moved away)
mv $demo /tmp/seed_${id}_demo.go
go test -vet=off -count=1 -timeout 25m ./... > $out/suite_with.log 2>&1
mv /tmp/seed_${id}_demo.go $demo
fails=$(grep -E "^(--- FAIL|FAIL)" $out/suite_with.log | grep -v -E "TestResolver|TestAddrResolveIP|shadowsocks-go/dns|shadowsocks-go/conn|^FAIL$" | head -5)
python3 - <<PY
import json
m=json.load(open('$out/agent_meta.json'))
meta={"property":"$id","breaks":m.get("summary"),"needs":m.get("needs"),"source":"independent sub-agent given only the property text and a scratch worktree",
 "confirmed":{"demo_fails_with_change":$with!=0,"demo_passes_without_change":$without==0,"existing_suite_failures_other_than_network_tests":"""$fails""".strip(),
 "commands":["go test -vet=off -count=1 -run Demo $pkg (with / without the patch)","go test -vet=off -count=1 ./... (with the patch; dns TestResolver and conn TestAddrResolveIP* need the network and fail on the unmodified tree too)"]}}
json.dump(meta,open('$out/meta.json','w'),indent=1)
print(json.dumps(meta["confirmed"]))
PY

#!/bin/bash
# tools/try_seed.sh <seed-name> <check-id> [tier]: apply seeded/<name>/patch.diff to /repo, run the check, undo.
name=$1; id=$2; tier=${3:-quick}
cd /repo && git apply /verif/seeded/$name/patch.diff || { echo "PATCH DOES NOT APPLY"; exit 2; }
git diff --stat | tail -1
cd /verif && ./run $id $tier > /tmp/seedrun_${name}_$id.log 2>&1; rc=$?
cd /repo && git checkout -- . 
echo "seed=$name check=$id exit=$rc"
grep -E "^VIOLATION|^INCONCLUSIVE|label=" /tmp/seedrun_${name}_$id.log | cut -c1-260 | head -${SEEDLINES:-4}
tail -n 1 /tmp/seedrun_${name}_$id.log | cut -c1-200

#!/bin/bash
# tools/run_thorough_all.sh [ids...]: run thorough tiers one after another (development aid; logs under .work/)
cd /verif; mkdir -p .work/thorough
ids=${@:-C14 C11 C08 C20 C19 C18 C13 C17 C10 C16 C06 C03 C04 C09 C15 C12 C02 C07 C05 C01}
for id in $ids; do
  s=$(date +%s)
  VSYM_EVIDENCE_DIR=/verif/.work/thorough/evidence timeout 14400 ./run $id thorough > .work/thorough/$id.log 2>&1; rc=$?
  echo "$id rc=$rc $(( $(date +%s) - s ))s $(tail -n 1 .work/thorough/$id.log | cut -c1-200)" >> .work/thorough/summary.txt
done

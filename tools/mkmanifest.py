#!/usr/bin/env python3
"""Regenerates MANIFEST.json from checks/*.json and tools/claims.json (hand-written texts)."""
import json, os, sys
root = os.path.dirname(os.path.dirname(os.path.abspath(__file__)))
props = [json.loads(l) for l in open(os.path.join(root, 'properties.jsonl'))]
claims = json.load(open(os.path.join(root, 'tools', 'claims.json')))
checks, na = [], []
for p in props:
    pid = p['id']
    c = claims.get(pid, {})
    spec_path = os.path.join(root, 'checks', pid + '.json')
    if c.get('claimed') and os.path.exists(spec_path):
        spec = json.load(open(spec_path))
        e = {"property_id": pid, "quick_cmd": "./run %s quick" % pid, "evidence_file": "evidence/%s.json" % pid,
             "replay_cmd_template": "./run --replay {path}", "engine": "vsym",
             "level_claimed": {"category": spec['level'], "text": c['text'], "design_ref": c.get('design_ref', 'DESIGN.md section 6, ' + pid)},
             "level_note": c['note'], "technique": c.get('technique', 'symbolic execution of the real Go SSA; every obligation decided by z3 (bit-vector SMT) within stated bounds; counterexamples replayed natively')}
        if spec.get('thorough'):
            e["thorough_cmd"] = "./run %s thorough" % pid
        checks.append(e)
    else:
        na.append({"property_id": pid, "reason": c.get('na_reason', 'check not built yet (engine under construction); see DESIGN.md section 6')})
m = {"version": 1, "setup_cmd": "./setup.sh",
     "hooks": {"guard": "verif", "enable": "no hooks: harnesses are injected in-package through go/packages overlays (symbolic run) and go test -overlay (native replay); /repo is never modified",
               "baseline_off_cmd": "cd /repo && go test -mod=mod -vet=off -count=1 -timeout 25m ./...", "source_commits": [], "add_only": True},
     "engines": [{"name": "vsym", "path": "engine/", "serves_properties": [c['property_id'] for c in checks],
                  "kind_free_text": "symbolic executor for Go SSA (go/ssa over /repo's working tree, regenerated every run) emitting SMT-LIB2 bit-vector queries to z3; native replay of counterexamples"}],
     "checks": checks,
     "notes": "Exit codes: 0 held within bounds, 1 replay-confirmed violation (VIOLATION line), 3 inconclusive (unsupported construct, solver unknown, vacuity, non-reproducing model). See DESIGN.md.",
     "not_applicable": na}
json.dump(m, open(os.path.join(root, 'MANIFEST.json'), 'w'), indent=1)
print("checks:", [c['property_id'] for c in checks], "n/a:", len(na))

package main

// Goroutines are coroutines: each interpreted goroutine runs on a real Go goroutine but only the
// holder of the baton executes.  Blocking operations hand the baton to another runnable goroutine.

import (
	"fmt"
	"go/types"
	"strings"

	"golang.org/x/tools/go/ssa"
)

type Goroutine struct {
	id      int
	name    string
	wake    chan bool // true = run, false = die
	done    bool
	ready   func() bool // nil = runnable
	frame   *Frame
	started bool
	harness bool // started with vfGo
}

type killed struct{}

// SchedSwitch is one baton hand-over of a schedule-symbolic run: goroutine G, at its Occ-th visit
// of scheduling point At (repo-relative file:line), hands over to Next because it was preempted,
// blocked or ended.
type SchedSwitch struct {
	G    string `json:"g"`
	At   string `json:"at"`
	Occ  int    `json:"occ"`
	Next string `json:"next"`
	Kind string `json:"kind"`
}

type Sched struct {
	ex       *Exec
	gs       []*Goroutine
	cur      *Goroutine
	symbolic bool
	preempt  int // remaining preemptive switches on this path
	abort    interface{}
	mainWake chan bool
	log      []string
	pointID  string          // overrides the position of the next scheduling point (goroutine spawn)
	points   map[string]bool // every scheduling point visited (file:line)
	occ      map[string]int  // goroutine|point -> visits
	switches []SchedSwitch
	siteOcc  map[string]int
}

// goSite returns "<rel file>:<line>" of the function literal a goroutine runs, when it lies in the
// package under test.
func (s *Sched) goSite(fv *FuncV) string {
	if fv == nil {
		return ""
	}
	fn := fv.Fn
	if fn == nil {
		if w, ok := s.ex.ghost["spawnInner"].(*FuncV); ok && w != nil {
			fn = w.Fn
		}
	}
	if fn == nil || fn.Parent() == nil || !fn.Pos().IsValid() {
		return ""
	}
	ps := s.ex.fset.Position(fn.Pos())
	if !strings.HasPrefix(ps.Filename, repoDir+"/") {
		return ""
	}
	rel := ps.Filename[len(repoDir)+1:]
	if i := strings.LastIndexByte(rel, '/'); (i >= 0 && rel[:i] == s.ex.pkgRel) || (i < 0 && s.ex.pkgRel == ".") {
		return fmt.Sprintf("%s:%d", rel, ps.Line)
	}
	return ""
}

// here returns the innermost position of the current goroutine that lies in the repository tree
// (scheduling points inside std code are attributed to their repo call site).
func (s *Sched) here() string {
	// innermost frame inside the package under test (only that package's files can be
	// instrumented for the native replay); failing that, the innermost frame in the repository
	fallback := ""
	for f := s.ex.curFrame; f != nil; f = f.caller {
		if !f.pos.IsValid() {
			continue
		}
		ps := s.ex.fset.Position(f.pos)
		if !strings.HasPrefix(ps.Filename, repoDir+"/") {
			continue
		}
		rel := ps.Filename[len(repoDir)+1:]
		if i := strings.LastIndexByte(rel, '/'); (i >= 0 && rel[:i] == s.ex.pkgRel) || (i < 0 && s.ex.pkgRel == ".") {
			return fmt.Sprintf("%s:%d", rel, ps.Line)
		}
		if fallback == "" {
			fallback = fmt.Sprintf("%s:%d", rel, ps.Line)
		}
	}
	return fallback
}

// visit records that the current goroutine passed a scheduling point and returns (point, occurrence).
func (s *Sched) visit() (string, int) {
	at := s.here()
	if s.pointID != "" {
		at = s.pointID
	}
	if at == "" {
		return "", 0
	}
	if s.points == nil {
		s.points = map[string]bool{}
		s.occ = map[string]int{}
	}
	s.points[at] = true
	k := s.cur.name + "|" + at
	s.occ[k]++
	return at, s.occ[k]
}

func (s *Sched) logSwitch(at string, occ int, next *Goroutine, kind string) {
	if s.symbolic {
		s.switches = append(s.switches, SchedSwitch{G: s.cur.name, At: at, Occ: occ, Next: next.name, Kind: kind})
	}
}

func newSched(ex *Exec, main *Goroutine) *Sched {
	main.wake = make(chan bool, 1)
	main.started = true
	return &Sched{ex: ex, gs: []*Goroutine{main}, cur: main}
}

func (s *Sched) spawn(fv *FuncV, args []Value, site ssa.Instruction) {
	g := &Goroutine{id: len(s.gs), wake: make(chan bool, 1)}
	g.name = fmt.Sprintf("g%d", g.id)
	named := false
	if n, ok := s.ex.ghost["nextGoName"].(string); ok && n != "" {
		g.name = n
		named = true
		s.ex.ghost["nextGoName"] = ""
	}
	if h, _ := s.ex.ghost["nextGoHarness"].(bool); h {
		g.harness = true
		s.ex.ghost["nextGoHarness"] = false
	} else if site := s.goSite(fv); site != "" && !named {
		// a goroutine of the code under test running a function literal: named after the literal's
		// position and its occurrence, so that the native replay can recognise it
		if s.siteOcc == nil {
			s.siteOcc = map[string]int{}
		}
		s.siteOcc[site]++
		g.name = fmt.Sprintf("go@%s#%d", site, s.siteOcc[site])
	}
	s.gs = append(s.gs, g)
	go func() {
		if !<-g.wake {
			return
		}
		defer func() {
			r := recover()
			g.done = true
			if r != nil {
				if _, isKill := r.(killed); isKill {
					return
				}
				// propagate to main
				s.abort = r
				main := s.gs[0]
				s.cur = main
				main.wake <- true
				return
			}
			// finished: hand the baton on
			s.ex.curFrame = nil
			next := s.pickNext(true)
			if next == nil {
				s.abort = pathEnd{"deadlock"}
				s.deadlock()
				main := s.gs[0]
				s.cur = main
				main.wake <- true
				return
			}
			s.logSwitch("", 0, next, "end")
			s.cur = next
			s.ex.curFrame = next.frame
			next.wake <- true
		}()
		s.ex.curFrame = &Frame{fn: nil, g: g}
		s.ex.curFrame = nil
		s.ex.callValue(fv, args, site)
	}()
	s.pointID = "spawn:" + g.name
	s.point()
	s.pointID = ""
}

func (s *Sched) runnable(g *Goroutine) bool {
	if g.done {
		return false
	}
	return g.ready == nil || g.ready()
}

// pickNext chooses the goroutine to run when the current one blocks or ends.
func (s *Sched) pickNext(excludeCur bool) *Goroutine {
	var cands []*Goroutine
	n := len(s.gs)
	start := 0
	for i, g := range s.gs {
		if g == s.cur {
			start = i
		}
	}
	for k := 1; k <= n; k++ {
		g := s.gs[(start+k)%n]
		if excludeCur && g == s.cur {
			continue
		}
		if s.runnable(g) {
			cands = append(cands, g)
		}
	}
	if len(cands) == 0 {
		return nil
	}
	if s.symbolic && len(cands) > 1 {
		return cands[s.ex.chooseN(len(cands))]
	}
	return cands[0]
}

func (s *Sched) deadlock() {
	var who []string
	for _, g := range s.gs {
		if !g.done {
			who = append(who, g.name)
		}
	}
	s.ex.Obligations++
	s.ex.recordFinding("deadlock", fmt.Sprintf("all goroutines blocked: %v", who), TTrue, "")
}

// switchTo passes the baton and waits until it comes back.
func (s *Sched) switchTo(next *Goroutine) {
	me := s.cur
	me.frame = s.ex.curFrame
	s.cur = next
	s.ex.curFrame = next.frame
	next.wake <- true
	if !<-me.wake {
		panic(killed{})
	}
	s.ex.curFrame = me.frame
	if me.id == 0 && s.abort != nil {
		a := s.abort
		s.abort = nil
		panic(a)
	}
}

// block suspends the current goroutine until ready() holds.
func (s *Sched) block(ready func() bool) {
	for !ready() {
		me := s.cur
		me.ready = ready
		at, occ := "", 0
		if s.symbolic {
			at = s.here()
			occ = s.occ[s.cur.name+"|"+at] // the visit was counted by the point() that precedes the blocking operation
		}
		next := s.pickNext(true)
		if next == nil {
			s.deadlock()
			panic(pathEnd{"deadlock"})
		}
		s.logSwitch(at, occ, next, "block")
		s.switchTo(next)
		me.ready = nil
	}
}

// yield lets other goroutines run (used by mainDone-style joins).
func (s *Sched) yield() {
	next := s.pickNext(true)
	if next != nil {
		s.switchTo(next)
	}
}

// point is a scheduling point: in schedule-symbolic mode the executor may preempt here.
func (s *Sched) point() {
	if s == nil || !s.symbolic {
		return
	}
	at, occ := s.visit()
	if s.preempt <= 0 || len(s.gs) == 1 {
		return
	}
	var cands []*Goroutine
	for _, g := range s.gs {
		if g != s.cur && s.runnable(g) {
			cands = append(cands, g)
		}
	}
	if len(cands) == 0 {
		return
	}
	k := s.ex.chooseN(len(cands) + 1)
	if k == 0 {
		return
	}
	s.preempt--
	s.logSwitch(at, occ, cands[k-1], "preempt")
	s.switchTo(cands[k-1])
}

func (s *Sched) access(o *Object) {
	if s == nil || o == nil || !o.Watch {
		return
	}
	s.point()
}

func (s *Sched) mainDone() {}

// killOthers ends every goroutine except the current one (a simulated process crash).
func (s *Sched) killOthers() {
	for _, g := range s.gs {
		if g != s.cur && !g.done {
			g.done = true
			select {
			case g.wake <- false:
			default:
			}
		}
	}
}

func (s *Sched) killAll() {
	for _, g := range s.gs[1:] {
		if !g.done {
			g.done = true
			select {
			case g.wake <- false:
			default:
			}
		}
	}
}

// ---------------------------------------------------------------- channels
//
// Channels follow the runtime's semantics: a blocked select parks one waiter on every channel of
// its cases; the counterpart operation that completes one of the cases commits it atomically
// (value transferred, waiter removed from all queues), so a rendezvous can never be half-done.

type ChanV struct {
	id     int
	size   int
	buf    []Value
	closed bool
	elemT  types.Type
	recvq  []*chanWaiter
	sendq  []*chanWaiter
}

type selCase struct {
	c    *ChanV
	send bool
	v    Value
}

// chanWaiter is a goroutine parked in a (possibly single-case) select.
type chanWaiter struct {
	cases []selCase
	fired bool
	idx   int
	val   Value
	ok    bool
}

func (ex *Exec) newChan(size int, et types.Type) *ChanV {
	objCount++
	return &ChanV{id: objCount, size: size, elemT: et}
}

func dequeueWaiter(w *chanWaiter) {
	rm := func(q []*chanWaiter) []*chanWaiter {
		out := q[:0]
		for _, x := range q {
			if x != w {
				out = append(out, x)
			}
		}
		return out
	}
	for _, sc := range w.cases {
		if sc.c == nil {
			continue
		}
		if sc.send {
			sc.c.sendq = rm(sc.c.sendq)
		} else {
			sc.c.recvq = rm(sc.c.recvq)
		}
	}
}

func (w *chanWaiter) caseIndex(c *ChanV, send bool) int {
	for i, sc := range w.cases {
		if sc.c == c && sc.send == send {
			return i
		}
	}
	return -1
}

// caseReady reports whether the case can complete right now without parking.
func caseReady(sc selCase) bool {
	c := sc.c
	if c == nil {
		return false
	}
	if sc.send {
		return c.closed || len(c.recvq) > 0 || len(c.buf) < c.size
	}
	return len(c.buf) > 0 || len(c.sendq) > 0 || c.closed
}

// complete performs a ready case for the running goroutine.
func (ex *Exec) complete(sc selCase) (Value, bool) {
	c := sc.c
	if sc.send {
		if c.closed {
			ex.oblige(TFalse, "panic:closedchan", "send on closed channel")
			panic(pathEnd{"violation"})
		}
		if len(c.recvq) > 0 {
			w := c.recvq[0]
			w.fired, w.idx, w.val, w.ok = true, w.caseIndex(c, false), copyValue(sc.v), true
			dequeueWaiter(w)
			return nil, false
		}
		c.buf = append(c.buf, copyValue(sc.v))
		return nil, false
	}
	if len(c.buf) > 0 {
		v := c.buf[0]
		c.buf = c.buf[1:]
		if len(c.sendq) > 0 { // a parked sender moves its value into the freed slot
			w := c.sendq[0]
			i := w.caseIndex(c, true)
			c.buf = append(c.buf, copyValue(w.cases[i].v))
			w.fired, w.idx = true, i
			dequeueWaiter(w)
		}
		return v, true
	}
	if len(c.sendq) > 0 {
		w := c.sendq[0]
		i := w.caseIndex(c, true)
		v := copyValue(w.cases[i].v)
		w.fired, w.idx = true, i
		dequeueWaiter(w)
		return v, true
	}
	return ex.zero(c.elemT), false // closed
}

// doSelect runs a select over the cases; returns the chosen index (-1 = default), received value, ok.
func (ex *Exec) doSelect(cases []selCase, blocking bool) (int, Value, bool) {
	ex.sched.point()
	for {
		var rdy []int
		for i, sc := range cases {
			if caseReady(sc) {
				rdy = append(rdy, i)
			}
		}
		if len(rdy) > 0 {
			k := 0
			if len(rdy) > 1 {
				// Go picks uniformly at random among ready cases: every choice is explored
				k = ex.chooseN(len(rdy))
			}
			v, ok := ex.complete(cases[rdy[k]])
			return rdy[k], v, ok
		}
		if !blocking {
			return -1, nil, false
		}
		w := &chanWaiter{cases: cases}
		for _, sc := range cases {
			if sc.c == nil {
				continue
			}
			if sc.send {
				sc.c.sendq = append(sc.c.sendq, w)
			} else {
				sc.c.recvq = append(sc.c.recvq, w)
			}
		}
		ex.sched.block(func() bool {
			if w.fired {
				return true
			}
			for _, sc := range cases { // a close (or a harness-fed buffer) makes a parked case ready
				if sc.c != nil && (sc.c.closed || !sc.send && len(sc.c.buf) > 0) {
					return true
				}
			}
			return false
		})
		if w.fired {
			return w.idx, w.val, w.ok
		}
		dequeueWaiter(w)
	}
}

func (ex *Exec) chanSend(cv, v Value) {
	c, _ := cv.(*ChanV)
	ex.doSelect([]selCase{{c: c, send: true, v: v}}, true)
}

func (ex *Exec) chanRecv(cv Value, commaOk bool, t types.Type) Value {
	c, _ := cv.(*ChanV)
	_, v, ok := ex.doSelect([]selCase{{c: c}}, true)
	if commaOk {
		return TupleV{v, Bool(ok)}
	}
	return v
}

func (ex *Exec) chanClose(cv Value) {
	c, _ := cv.(*ChanV)
	ex.sched.point() // scheduling points precede the operation (the native replay inserts them before the statement)
	if c == nil {
		ex.oblige(TFalse, "panic:closedchan", "close of nil channel")
		panic(pathEnd{"violation"})
	}
	if c.closed {
		ex.oblige(TFalse, "panic:closedchan", "close of closed channel")
		panic(pathEnd{"violation"})
	}
	c.closed = true
}

func (ex *Exec) selectOp(fr *Frame, in *ssa.Select) Value {
	cases := make([]selCase, len(in.States))
	for i, s := range in.States {
		c, _ := ex.get(fr, s.Chan).(*ChanV)
		cases[i] = selCase{c: c, send: s.Dir == types.SendOnly}
		if cases[i].send {
			cases[i].v = ex.get(fr, s.Send)
		}
	}
	i, v, ok := ex.doSelect(cases, in.Blocking)
	return ex.selectResult(in, i, v, ok)
}

func (ex *Exec) selectResult(in *ssa.Select, idx int, recv Value, ok bool) Value {
	tt := in.Type().(*types.Tuple)
	out := make(TupleV, tt.Len())
	out[0] = BV(64, uint64(int64(idx)))
	out[1] = Bool(ok)
	r := 2
	for i, s := range in.States {
		if s.Dir == types.RecvOnly {
			if r >= len(out) {
				break
			}
			if i == idx {
				out[r] = recv
			} else {
				out[r] = ex.zero(tt.At(r).Type())
			}
			r++
		}
	}
	return out
}

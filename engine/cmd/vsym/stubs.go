package main

import (
	"encoding/hex"
	"fmt"
	"hash/fnv"
	"strconv"
	"strings"

	"golang.org/x/tools/go/ssa"
)

type stubFn func(ex *Exec, fn *ssa.Function, args []Value) Value

var exactStubs = map[string]stubFn{}
var prefixStubs []struct {
	prefix string
	h      stubFn
}
var suffixStubs = map[string]stubFn{} // intrinsics by bare name (".vfU64")
var pkgInitStubs = map[string]func(ex *Exec, pkg *ssa.Package){}

func regStub(name string, h stubFn) { exactStubs[name] = h }
func regPrefix(prefix string, h stubFn) {
	prefixStubs = append(prefixStubs, struct {
		prefix string
		h      stubFn
	}{prefix, h})
}

func stubDisplayName(fn *ssa.Function, name string) string {
	if i := strings.LastIndex(name, ".vf"); i >= 0 {
		return name[i+1:]
	}
	return name
}

func (ex *Exec) lookupStub(fn *ssa.Function, name string) stubFn {
	if h, ok := exactStubs[name]; ok {
		return h
	}
	if i := strings.LastIndex(name, ".vf"); i >= 0 && !strings.Contains(name[i+1:], ".") && !strings.Contains(name[i+1:], "$") {
		if h, ok := suffixStubs[name[i+1:]]; ok {
			return h
		}
	}
	if o := fn.Origin(); o != nil {
		if h, ok := exactStubs[o.String()]; ok {
			return h
		}
	}
	for _, p := range prefixStubs {
		if strings.HasPrefix(name, p.prefix) {
			return p.h
		}
	}
	return nil
}

func (ex *Exec) argString(v Value) string {
	s, ok := ex.concreteString(v.(*SliceV))
	if !ok {
		panic(unsupported("intrinsic needs a constant string argument"))
	}
	return s
}

// randU64 is a deterministic pseudo-random value for an input name under the run's seed.
func (ex *Exec) randU64(name string) uint64 {
	h := uint64(1469598103934665603) ^ ex.randSeed
	for i := 0; i < len(name); i++ {
		h ^= uint64(name[i])
		h *= 1099511628211
	}
	h ^= h >> 29
	h *= 0xbf58476d1ce4e5b9
	h ^= h >> 32
	return h
}

func (ex *Exec) inputName(base string) string {
	ex.fresh["in:"+base]++
	if n := ex.fresh["in:"+base]; n > 1 {
		return fmt.Sprintf("%s#%d", base, n)
	}
	return base
}

func (ex *Exec) newInput(base string, w int) *Term {
	name := ex.inputName(base)
	if ex.concrete != nil {
		if _, have := ex.concrete[name]; !have && ex.randSeed != 0 {
			// differential mode: the missing input is drawn pseudo-randomly and recorded
			r := ex.randU64(name)
			switch {
			case w == 0:
				r &= 1
			case w < 64:
				// favour small values and boundaries as well as arbitrary ones
				switch r >> 61 {
				case 0:
					r = (r >> 8) & 0xf
				case 1:
					r = (uint64(1) << uint(w)) - 1 - ((r >> 8) & 3)
				}
				r &= (uint64(1) << uint(w)) - 1
			default:
				switch r >> 61 {
				case 0:
					r = (r >> 8) & 0xff
				case 1:
					r = (r >> 8) & 0xffff
				}
			}
			ex.concrete[name] = strconv.FormatUint(r, 10)
		}
		v, _ := strconv.ParseUint(ex.concrete[name], 10, 64)
		if w == 0 {
			return Bool(v != 0)
		}
		return BV(w, v)
	}
	t := Var(name, w)
	ex.inputs = append(ex.inputs, inputVar{name: name, t: t})
	return t
}

var _ = wOr1

func wOr1(w int) int {
	if w == 0 {
		return 1
	}
	return w
}

func init() {
	for _, d := range []struct {
		n string
		w int
	}{{"vfU8", 8}, {"vfU16", 16}, {"vfU32", 32}, {"vfU64", 64}, {"vfInt", 64}, {"vfI64", 64}, {"vfI32", 32}} {
		w := d.w
		suffixStubs[d.n] = func(ex *Exec, fn *ssa.Function, args []Value) Value {
			return ex.newInput(ex.argString(args[0]), w)
		}
	}
	suffixStubs["vfBool"] = func(ex *Exec, fn *ssa.Function, args []Value) Value {
		return ex.newInput(ex.argString(args[0]), 0)
	}
	suffixStubs["vfBytes"] = func(ex *Exec, fn *ssa.Function, args []Value) Value {
		name := ex.inputName(ex.argString(args[0]))
		n := args[1].(*Term)
		if ex.concrete != nil {
			nc, ok := n.ConstVal()
			if !ok {
				panic(unsupported("concrete mode: vfBytes with symbolic length"))
			}
			data := make([]byte, nc)
			if _, have := ex.concrete[name]; !have && ex.randSeed != 0 {
				for i := range data {
					data[i] = byte(ex.randU64(fmt.Sprintf("%s[%d]", name, i)))
				}
				ex.concrete[name] = fmt.Sprintf("len=%d hex=%s", nc, hex.EncodeToString(data))
			}
			if v := ex.concrete[name]; v != "" {
				if i := strings.Index(v, "hex="); i >= 0 {
					raw, _ := hex.DecodeString(v[i+4:])
					copy(data, raw)
				}
			}
			return ex.bytesValue(data)
		}
		ex.oblige(AndB(Sge(n, BV(64, 0)), Slt(n, BV(64, 1<<32))), "harness", "vfBytes length out of range")
		o := ex.newBytes(freshLayer(name), n, name)
		ex.inputs = append(ex.inputs, inputVar{name: name, arr: name, n: n})
		return &SliceV{Obj: o, Off: BV(64, 0), Len: n, Cap: n}
	}
	suffixStubs["vfAssume"] = func(ex *Exec, fn *ssa.Function, args []Value) Value {
		c := args[0].(*Term)
		if c == TTrue {
			return nil
		}
		if c == TFalse {
			panic(pathEnd{"assume"})
		}
		if ex.dpos >= len(ex.decisions) {
			if ex.solver.Check(ex.pc, c) == Unsat {
				panic(pathEnd{"assume"})
			}
		}
		ex.assume(c)
		return nil
	}
	suffixStubs["vfAssert"] = func(ex *Exec, fn *ssa.Function, args []Value) Value {
		ex.oblige(args[0].(*Term), "assert", ex.argString(args[1]))
		return nil
	}
	suffixStubs["vfReach"] = func(ex *Exec, fn *ssa.Function, args []Value) Value {
		label := ex.argString(args[0])
		ex.Reached[label]++
		if ex.ReachSample[label] == nil && len(ex.pc) > 0 && ex.concrete == nil {
			if m := ex.solver.GetModel(ex.pc, TTrue); m != nil {
				ex.ReachSample[label] = ex.modelInputs(m)
			}
		} else if ex.ReachSample[label] == nil {
			ex.ReachSample[label] = map[string]string{}
		}
		return nil
	}
	suffixStubs["vfObserve"] = func(ex *Exec, fn *ssa.Function, args []Value) Value {
		label := ex.argString(args[0])
		if t, ok := args[1].(*Term); ok {
			if c, isC := t.ConstVal(); isC {
				ex.Observed = append(ex.Observed, fmt.Sprintf("%s=%d", label, c))
				return nil
			}
		}
		ex.Observed = append(ex.Observed, label+"="+ex.describe(args[1]))
		return nil
	}
	suffixStubs["vfCase"] = func(ex *Exec, fn *ssa.Function, args []Value) Value {
		name := ex.argString(args[0])
		v, ok := ex.caseVals[name]
		if !ok {
			panic(unsupported("vfCase: no value for " + name))
		}
		return BV(64, uint64(v))
	}
	suffixStubs["vfKnown"] = func(ex *Exec, fn *ssa.Function, args []Value) Value {
		label := ex.argString(args[0])
		if ex.knownLabels[label] == "known" {
			ex.curKnown = append(ex.curKnown, knownPred{label: label, cond: args[1].(*Term)})
		}
		return nil
	}
	suffixStubs["vfUFBool"] = func(ex *Exec, fn *ssa.Function, args []Value) Value {
		name := ex.argString(args[0])
		return UF(name, 0, ex.variadicTerms(args[1])...)
	}
	suffixStubs["vfUF64"] = func(ex *Exec, fn *ssa.Function, args []Value) Value {
		name := ex.argString(args[0])
		return UF(name, 64, ex.variadicTerms(args[1])...)
	}
	suffixStubs["vfAnd"] = func(ex *Exec, fn *ssa.Function, args []Value) Value {
		return AndB(args[0].(*Term), args[1].(*Term))
	}
	suffixStubs["vfOr"] = func(ex *Exec, fn *ssa.Function, args []Value) Value {
		return OrB(args[0].(*Term), args[1].(*Term))
	}
	suffixStubs["vfImp"] = func(ex *Exec, fn *ssa.Function, args []Value) Value {
		return Implies(args[0].(*Term), args[1].(*Term))
	}
	suffixStubs["vfIte"] = func(ex *Exec, fn *ssa.Function, args []Value) Value {
		return Ite(args[0].(*Term), args[1].(*Term), args[2].(*Term))
	}
	suffixStubs["vfFuncID"] = func(ex *Exec, fn *ssa.Function, args []Value) Value {
		iv := args[0].(*IfaceV)
		if iv.Typ == nil {
			return BV(64, 0)
		}
		f, _ := iv.Val.(*FuncV)
		if f == nil {
			return BV(64, 0)
		}
		name := f.Name
		if f.Fn != nil {
			name = f.Fn.String()
		}
		h := fnv.New64a()
		h.Write([]byte(name))
		return BV(64, h.Sum64()|1)
	}
	suffixStubs["vfSymbolic"] = func(ex *Exec, fn *ssa.Function, args []Value) Value {
		return Bool(ex.concrete == nil)
	}
	suffixStubs["vfUnwind"] = func(ex *Exec, fn *ssa.Function, args []Value) Value {
		c, _ := args[0].(*Term).ConstVal()
		ex.unwind = int(c)
		return nil
	}
	suffixStubs["vfConcretize"] = func(ex *Exec, fn *ssa.Function, args []Value) Value {
		// fork on each value in [lo,hi] of a small-range integer, returning it as a concrete value
		v := args[0].(*Term)
		lo, _ := args[1].(*Term).ConstVal()
		hi, _ := args[2].(*Term).ConstVal()
		if v.IsConst() {
			return v
		}
		var conds []*Term
		for k := lo; k <= hi; k++ {
			conds = append(conds, Eq(v, BV(v.W, k)))
		}
		i := ex.choose(conds)
		return BV(v.W, lo+uint64(i))
	}
}

func (ex *Exec) variadicTerms(v Value) []*Term {
	s := v.(*SliceV)
	n, ok := s.Len.ConstVal()
	if !ok {
		panic(unsupported("variadic intrinsic args"))
	}
	out := make([]*Term, n)
	for i := range out {
		out[i] = ex.readElem(s, BV(64, uint64(i))).(*Term)
	}
	return out
}

package main

// A loopback UDP network for the UDP relay harnesses (C12): every socket lives on 127.0.0.1 and is
// identified by its port.  *net.UDPConn values created through conn.ListenConfig.ListenUDP are
// backed by ghost sockets with an inbox, a read deadline and a closed flag; reads block on the
// engine's scheduler until a datagram arrives, the deadline passes (the harness owns the clock)
// or the socket is closed.  Harness "peers" (vfNetSocket) are sockets of the same network.

import (
	"fmt"
	"go/types"

	"golang.org/x/tools/go/ssa"
)

type udpPkt struct {
	data []*Term
	src  uint16
}

type udpSock struct {
	id       int
	port     uint16
	inbox    []udpPkt
	deadline TupleV // time.Time; nil = none
	closed   bool
	peer     bool
	obj      *Object
	sent     int
}

type udpNet struct {
	socks []*udpSock
	byObj map[*Object]*udpSock
}

func (ex *Exec) udpNet() *udpNet {
	n, _ := ex.ghost["udpnet"].(*udpNet)
	if n == nil {
		n = &udpNet{byObj: map[*Object]*udpSock{}}
		ex.ghost["udpnet"] = n
	}
	return n
}

func (n *udpNet) newSock(peer bool) *udpSock {
	s := &udpSock{id: len(n.socks), port: uint16(40000 + len(n.socks)), peer: peer}
	n.socks = append(n.socks, s)
	return s
}

func (n *udpNet) byPort(p uint16) *udpSock {
	for _, s := range n.socks {
		if s.port == p && !s.closed {
			return s
		}
	}
	return nil
}

var udpConnClose func(ex *Exec, fn *ssa.Function, args []Value) Value

func (ex *Exec) isGhostSock(v Value) bool {
	p, ok := v.(*Ptr)
	if !ok || isNilPtr(p) {
		return false
	}
	n, _ := ex.ghost["udpnet"].(*udpNet)
	return n != nil && n.byObj[p.Obj] != nil
}

func (ex *Exec) sockOf(v Value) *udpSock {
	p, ok := v.(*Ptr)
	if !ok || isNilPtr(p) {
		ex.oblige(TFalse, "panic:nil", "nil *net.UDPConn")
		panic(pathEnd{"violation"})
	}
	s := ex.udpNet().byObj[p.Obj]
	if s == nil {
		panic(unsupported("*net.UDPConn that was not created by the modelled ListenUDP"))
	}
	return s
}

// expired reports whether the socket's read deadline has passed on the harness clock.
func (ex *Exec) sockExpired(s *udpSock) bool {
	if s.deadline == nil {
		return false
	}
	d := ex.timeSub(s.deadline, ex.timeNow())
	c, ok := d.ConstVal()
	if !ok {
		panic(unsupported("socket deadline depends on a symbolic clock"))
	}
	return int64(c) <= 0
}

func timeIsZero(t TupleV) bool {
	w, ok1 := t[0].(*Term)
	e, ok2 := t[1].(*Term)
	if !ok1 || !ok2 {
		return false
	}
	wc, a := w.ConstVal()
	ec, b := e.ConstVal()
	return a && b && wc == 0 && ec == 0
}

func (ex *Exec) loopbackAddrPort(port uint16) Value {
	np := ex.prog.ImportedPackage("net/netip")
	a4 := TupleV{BV(8, 127), BV(8, 0), BV(8, 0), BV(8, 1)}
	ip := ex.callFunction(np.Func("AddrFrom4"), []Value{a4}, nil, nil)
	return ex.callFunction(np.Func("AddrPortFrom"), []Value{ip, BV(16, uint64(port))}, nil, nil)
}

func (ex *Exec) globalValue(pkgPath, name string) Value {
	p := ex.prog.ImportedPackage(pkgPath)
	if p == nil {
		panic(unsupported("package not loaded: " + pkgPath))
	}
	g := p.Var(name)
	o := ex.global(g)
	return ex.load(&Ptr{Obj: o}, g.Type().(*types.Pointer).Elem())
}

func addrPortPort(v Value) uint16 {
	tv := v.(TupleV)
	c, ok := tv[1].(*Term).ConstVal()
	if !ok {
		panic(unsupported("symbolic destination port on the modelled network"))
	}
	return uint16(c)
}

func (ex *Exec) sockDeliver(from *udpSock, toPort uint16, b *SliceV) {
	n, ok := b.Len.ConstVal()
	if !ok {
		panic(unsupported("datagram of symbolic length on the modelled network"))
	}
	from.sent++
	dst := ex.udpNet().byPort(toPort)
	if dst == nil {
		return // nobody listens there: the datagram is lost
	}
	var data []*Term
	if n > 0 {
		data = ex.readBytes(b, int(n))
	}
	dst.inbox = append(dst.inbox, udpPkt{data: data, src: from.port})
}

func init() {
	regStub("(*"+modPath+"/conn.ListenConfig).ListenUDP", func(ex *Exec, fn *ssa.Function, args []Value) Value {
		ex.sched.point()
		n := ex.udpNet()
		s := n.newSock(false)
		ut := ex.namedType("net", "UDPConn")
		s.obj = ex.newCells(ut, ex.zero(ut), fmt.Sprintf("udpconn%d", s.id))
		n.byObj[s.obj] = s
		info := ex.zero(fn.Signature.Results().At(1).Type())
		return TupleV{&Ptr{Obj: s.obj}, info, &IfaceV{}}
	})
	regStub("(*net.UDPConn).ReadMsgUDPAddrPort", func(ex *Exec, fn *ssa.Function, args []Value) Value {
		s := ex.sockOf(args[0])
		b := args[1].(*SliceV)
		apT := fn.Signature.Results().At(3).Type()
		ex.sched.point()
		ex.sched.block(func() bool { return s.closed || len(s.inbox) > 0 || ex.sockExpired(s) })
		switch {
		case s.closed:
			return TupleV{BV(64, 0), BV(64, 0), BV(64, 0), ex.zero(apT), ex.globalValue("net", "ErrClosed")}
		case ex.sockExpired(s):
			return TupleV{BV(64, 0), BV(64, 0), BV(64, 0), ex.zero(apT), ex.globalValue("os", "ErrDeadlineExceeded")}
		}
		p := s.inbox[0]
		s.inbox = s.inbox[1:]
		room, ok := b.Len.ConstVal()
		if !ok {
			panic(unsupported("receive buffer of symbolic length"))
		}
		n, flags := len(p.data), uint64(0)
		if uint64(n) > room {
			n, flags = int(room), 0x20 // MSG_TRUNC
		}
		for i := 0; i < n; i++ {
			ex.writeElem(b, BV(64, uint64(i)), p.data[i])
		}
		return TupleV{BV(64, uint64(n)), BV(64, 0), BV(64, flags), ex.loopbackAddrPort(p.src), &IfaceV{}}
	})
	regStub("(*net.UDPConn).WriteToUDPAddrPort", func(ex *Exec, fn *ssa.Function, args []Value) Value {
		s := ex.sockOf(args[0])
		ex.sched.point()
		if s.closed {
			return TupleV{BV(64, 0), ex.globalValue("net", "ErrClosed")}
		}
		b := args[1].(*SliceV)
		ex.sockDeliver(s, addrPortPort(args[2]), b)
		return TupleV{b.Len, &IfaceV{}}
	})
	regStub("(*net.UDPConn).WriteMsgUDPAddrPort", func(ex *Exec, fn *ssa.Function, args []Value) Value {
		s := ex.sockOf(args[0])
		ex.sched.point()
		if s.closed {
			return TupleV{BV(64, 0), BV(64, 0), ex.globalValue("net", "ErrClosed")}
		}
		b := args[1].(*SliceV)
		ex.sockDeliver(s, addrPortPort(args[3]), b)
		return TupleV{b.Len, BV(64, 0), &IfaceV{}}
	})
	regStub("(*net.conn).SetReadDeadline", func(ex *Exec, fn *ssa.Function, args []Value) Value {
		s := ex.sockOf(args[0])
		ex.sched.point()
		if s.closed {
			return ex.globalValue("net", "ErrClosed")
		}
		t := args[1].(TupleV)
		if timeIsZero(t) {
			s.deadline = nil
		} else {
			s.deadline = t
		}
		return &IfaceV{}
	})
	udpConnClose = func(ex *Exec, fn *ssa.Function, args []Value) Value {
		s := ex.sockOf(args[0])
		ex.sched.point()
		if s.closed {
			return ex.globalValue("net", "ErrClosed")
		}
		s.closed = true
		return &IfaceV{}
	}
	regStub("(*net.conn).LocalAddr", func(ex *Exec, fn *ssa.Function, args []Value) Value {
		s := ex.sockOf(args[0])
		at := ex.namedType("net", "UDPAddr")
		v := ex.zero(at).(TupleV)
		ipo := ex.newBytes(constLayer(ex, []byte{127, 0, 0, 1}), BV(64, 4), "ip")
		v[0] = &SliceV{Obj: ipo, Off: BV(64, 0), Len: BV(64, 4), Cap: BV(64, 4)}
		v[1] = BV(64, uint64(s.port))
		o := ex.newCells(at, v, "udpaddr")
		return &IfaceV{Typ: types.NewPointer(at), Val: &Ptr{Obj: o}}
	})
	regStub("(*net.UDPAddr).String", func(ex *Exec, fn *ssa.Function, args []Value) Value {
		p := args[0].(*Ptr)
		v := getAt(p.Obj.Val, p.Path).(TupleV)
		port, _ := v[1].(*Term).ConstVal()
		return ex.stringValue(fmt.Sprintf("127.0.0.1:%d", port))
	})

	// ---- harness side
	suffixStubs["vfNetSocket"] = func(ex *Exec, fn *ssa.Function, args []Value) Value {
		s := ex.udpNet().newSock(true)
		return BV(64, uint64(s.id))
	}
	sockByID := func(ex *Exec, v Value) *udpSock {
		c, ok := v.(*Term).ConstVal()
		n := ex.udpNet()
		if !ok || int(c) >= len(n.socks) {
			panic(unsupported("vfNet*: bad socket id"))
		}
		return n.socks[c]
	}
	suffixStubs["vfNetPort"] = func(ex *Exec, fn *ssa.Function, args []Value) Value {
		return BV(16, uint64(sockByID(ex, args[0]).port))
	}
	suffixStubs["vfNetSend"] = func(ex *Exec, fn *ssa.Function, args []Value) Value {
		s := sockByID(ex, args[0])
		port, ok := args[1].(*Term).ConstVal()
		if !ok {
			panic(unsupported("vfNetSend: symbolic port"))
		}
		ex.sched.point()
		ex.sockDeliver(s, uint16(port), args[2].(*SliceV))
		return nil
	}
	suffixStubs["vfNetRecv"] = func(ex *Exec, fn *ssa.Function, args []Value) Value {
		// lets every other goroutine run until all of them are blocked, then takes one datagram
		s := sockByID(ex, args[0])
		exactSuffixStub(ex, "vfSettle")
		b := args[1].(*SliceV)
		if len(s.inbox) == 0 {
			return TupleV{BV(64, 0), BV(16, 0), TFalse}
		}
		p := s.inbox[0]
		s.inbox = s.inbox[1:]
		room, _ := b.Len.ConstVal()
		n := len(p.data)
		if uint64(n) > room {
			n = int(room)
		}
		for i := 0; i < n; i++ {
			ex.writeElem(b, BV(64, uint64(i)), p.data[i])
		}
		return TupleV{BV(64, uint64(n)), BV(16, uint64(p.src)), TTrue}
	}
	suffixStubs["vfNetOpen"] = func(ex *Exec, fn *ssa.Function, args []Value) Value {
		k := 0
		for _, s := range ex.udpNet().socks {
			if !s.peer && !s.closed {
				k++
			}
		}
		return BV(64, uint64(k))
	}
	suffixStubs["vfNetCreated"] = func(ex *Exec, fn *ssa.Function, args []Value) Value {
		k := 0
		for _, s := range ex.udpNet().socks {
			if !s.peer {
				k++
			}
		}
		return BV(64, uint64(k))
	}
	suffixStubs["vfQuiesce"] = func(ex *Exec, fn *ssa.Function, args []Value) Value {
		exactSuffixStub(ex, "vfSettle")
		return nil
	}
	suffixStubs["vfLiveGoroutines"] = func(ex *Exec, fn *ssa.Function, args []Value) Value {
		k := 0
		for _, g := range ex.sched.gs[1:] {
			if !g.done {
				k++
			}
		}
		return BV(64, uint64(k))
	}
	suffixStubs["vfClockAdd"] = func(ex *Exec, fn *ssa.Function, args []Value) Value {
		// like vfAdvance, but nobody is given a chance to run yet
		ex.ghost["noSettle"] = true
		suffixStubs["vfAdvance"](ex, fn, args)
		ex.ghost["noSettle"] = false
		return nil
	}
	suffixStubs["vfAdvance"] = func(ex *Exec, fn *ssa.Function, args []Value) Value {
		// the harness clock moves forward by d nanoseconds; blocked reads whose deadline passed wake up
		d, ok := args[0].(*Term).ConstVal()
		if !ok {
			panic(unsupported("vfAdvance: symbolic duration"))
		}
		sec, _ := ex.ghost["clock.sec"].(*Term)
		nsec, _ := ex.ghost["clock.nsec"].(*Term)
		if sec == nil {
			sec, nsec = BV(64, 1000000000), BV(64, 0)
		}
		sc, _ := sec.ConstVal()
		nc, _ := nsec.ConstVal()
		tot := int64(nc) + int64(d)
		ex.ghost["clock.sec"] = BV(64, uint64(int64(sc)+tot/1000000000))
		ex.ghost["clock.nsec"] = BV(64, uint64(tot%1000000000))
		if ns, _ := ex.ghost["noSettle"].(bool); !ns {
			exactSuffixStub(ex, "vfSettle")
		}
		return nil
	}
}

func exactSuffixStub(ex *Exec, name string) {
	suffixStubs[name](ex, nil, nil)
}

// ---- net/http message I/O (C16, control flow only): requests are objects queued by the harness;
// http.ReadRequest takes the next one (io.EOF when none is left), (*http.Request).Write records
// which request object was written out.  No bytes are modelled.
func init() {
	suffixStubs["vfHTTPQueue"] = func(ex *Exec, fn *ssa.Function, args []Value) Value {
		q, _ := ex.ghost["http.queue"].([]Value)
		ex.ghost["http.queue"] = append(q, args[0])
		return nil
	}
	regStub("net/http.ReadRequest", func(ex *Exec, fn *ssa.Function, args []Value) Value {
		q, _ := ex.ghost["http.queue"].([]Value)
		if len(q) == 0 {
			return TupleV{ex.zero(fn.Signature.Results().At(0).Type()), ex.globalValue("io", "EOF")}
		}
		ex.ghost["http.queue"] = q[1:]
		return TupleV{q[0], &IfaceV{}}
	})
	regStub("(*net/http.Request).Write", func(ex *Exec, fn *ssa.Function, args []Value) Value {
		w, _ := ex.ghost["http.written"].([]Value)
		ex.ghost["http.written"] = append(w, args[0])
		return &IfaceV{}
	})
	suffixStubs["vfHTTPInput"] = func(ex *Exec, fn *ssa.Function, args []Value) Value { return &IfaceV{} }
	suffixStubs["vfHTTPWire"] = func(ex *Exec, fn *ssa.Function, args []Value) Value {
		return ex.zero(fn.Signature.Results().At(0).Type())
	}
	suffixStubs["vfHTTPOutput"] = func(ex *Exec, fn *ssa.Function, args []Value) Value { return nil }
	suffixStubs["vfHTTPWrittenCount"] = func(ex *Exec, fn *ssa.Function, args []Value) Value {
		w, _ := ex.ghost["http.written"].([]Value)
		return BV(64, uint64(len(w)))
	}
	suffixStubs["vfHTTPWritten"] = func(ex *Exec, fn *ssa.Function, args []Value) Value {
		// the i-th request written out (as the same *http.Request object)
		w, _ := ex.ghost["http.written"].([]Value)
		i, ok := args[0].(*Term).ConstVal()
		if !ok || int(i) >= len(w) {
			panic(unsupported("vfHTTPWritten: index"))
		}
		return w[i]
	}
}

// responses (C16): same idea as for requests
func init() {
	suffixStubs["vfHTTPQueueResponse"] = func(ex *Exec, fn *ssa.Function, args []Value) Value {
		q, _ := ex.ghost["http.rqueue"].([]Value)
		ex.ghost["http.rqueue"] = append(q, args[0])
		return nil
	}
	suffixStubs["vfHTTPRespPending"] = func(ex *Exec, fn *ssa.Function, args []Value) Value {
		q, _ := ex.ghost["http.rqueue"].([]Value)
		return BV(64, uint64(len(q)))
	}
	regStub("net/http.ReadResponse", func(ex *Exec, fn *ssa.Function, args []Value) Value {
		// whatever the caller peeked is consumed with the message
		if br, ok := args[0].(*Ptr); ok && !isNilPtr(br) {
			st := ex.namedType("bufio", "Reader").Underlying().(*types.Struct)
			tv := getAt(br.Obj.Val, br.Path).(TupleV)
			ri, wi := -1, -1
			for i := 0; i < st.NumFields(); i++ {
				switch st.Field(i).Name() {
				case "r":
					ri = i
				case "w":
					wi = i
				}
			}
			if ri >= 0 && wi >= 0 {
				tv[ri] = tv[wi]
			}
		}
		q, _ := ex.ghost["http.rqueue"].([]Value)
		if len(q) == 0 {
			return TupleV{ex.zero(fn.Signature.Results().At(0).Type()), ex.globalValue("io", "ErrUnexpectedEOF")}
		}
		ex.ghost["http.rqueue"] = q[1:]
		return TupleV{q[0], &IfaceV{}}
	})
	regStub("(*net/http.Response).Write", func(ex *Exec, fn *ssa.Function, args []Value) Value {
		w, _ := ex.ghost["http.rwritten"].([]Value)
		ex.ghost["http.rwritten"] = append(w, args[0])
		return &IfaceV{}
	})
	suffixStubs["vfHTTPRespWrittenCount"] = func(ex *Exec, fn *ssa.Function, args []Value) Value {
		w, _ := ex.ghost["http.rwritten"].([]Value)
		return BV(64, uint64(len(w)))
	}
	suffixStubs["vfHTTPRespWritten"] = func(ex *Exec, fn *ssa.Function, args []Value) Value {
		w, _ := ex.ghost["http.rwritten"].([]Value)
		i, ok := args[0].(*Term).ConstVal()
		if !ok || int(i) >= len(w) {
			panic(unsupported("vfHTTPRespWritten: index"))
		}
		return w[i]
	}
	suffixStubs["vfHTTPRespOutput"] = func(ex *Exec, fn *ssa.Function, args []Value) Value { return nil }
	suffixStubs["vfHTTPRespNative"] = func(ex *Exec, fn *ssa.Function, args []Value) Value { return &IfaceV{} }
}

package main

// vsym difftest <spec.json>: translator validation.  For every (package, differential harness) of
// the spec, N pseudo-random concrete input vectors are run (1) through the executor in concrete
// mode and (2) natively against the real build; the sequences of vfObserve values and the outcomes
// must be identical.  A mismatch means the encoder (or a stub) does not do what the Go compiler's
// code does.

import (
	"encoding/json"
	"fmt"
	"os"
	"os/exec"
	"path/filepath"
	"sort"
	"strings"
)

type diffSpec struct {
	Runs  int `json:"runs"`
	Items []struct {
		Pkg  string           `json:"pkg"`
		Fn   string           `json:"fn"`
		Case map[string]int64 `json:"case"`
	} `json:"items"`
}

func cmdDifftest(args []string) {
	specPath := filepath.Join(verifDir, "checks", "difftest.json")
	if len(args) > 0 {
		specPath = args[0]
	}
	data, err := os.ReadFile(specPath)
	if err != nil {
		fatalf("%v", err)
	}
	var spec diffSpec
	if err := json.Unmarshal(data, &spec); err != nil {
		fatalf("%v", err)
	}
	if spec.Runs == 0 {
		spec.Runs = 25
	}
	work := filepath.Join(verifDir, ".work", fmt.Sprintf("difftest-%d", os.Getpid()))
	os.MkdirAll(work, 0o755)
	defer os.RemoveAll(work)
	self, _ := os.Executable()
	total, mismatches := 0, 0
	report := map[string]interface{}{}
	for ii, it := range spec.Items {
		// 1. the executor, concrete mode, one process for all seeds
		type jobT struct {
			Fn     string           `json:"fn"`
			Case   map[string]int64 `json:"case"`
			Out    string           `json:"out"`
			Random uint64           `json:"random"`
		}
		var jobs []jobT
		for r := 1; r <= spec.Runs; r++ {
			jobs = append(jobs, jobT{Fn: it.Fn, Case: it.Case, Random: uint64(1000*ii + r), Out: filepath.Join(work, fmt.Sprintf("e%d_%d.json", ii, r))})
		}
		jf := filepath.Join(work, fmt.Sprintf("jobs%d.json", ii))
		jd, _ := json.Marshal(jobs)
		os.WriteFile(jf, jd, 0o644)
		cmd := exec.Command(self, "exec", "-pkg", it.Pkg, "-jobs", jf)
		cmd.Env = append(os.Environ(), "VERIF_DIR="+verifDir, "VSYM_XCHECK=0")
		if out, err := cmd.CombinedOutput(); err != nil {
			fmt.Printf("DIFFTEST %s %s: executor failed: %v\n%s\n", it.Pkg, it.Fn, err, lastLines(string(out), 10))
			mismatches++
			continue
		}
		// 2. natively, one go test for all seeds
		ddir := filepath.Join(work, fmt.Sprintf("d%d", ii))
		os.MkdirAll(ddir, 0o755)
		eng := map[string][]string{}
		engOutcome := map[string]string{}
		var names []string
		for r := 1; r <= spec.Runs; r++ {
			var res ExecResult
			rd, err := os.ReadFile(jobs[r-1].Out)
			if err != nil || json.Unmarshal(rd, &res) != nil {
				fmt.Printf("DIFFTEST %s %s seed %d: no executor result\n", it.Pkg, it.Fn, r)
				mismatches++
				continue
			}
			name := fmt.Sprintf("v%03d.json", r)
			rf := map[string]interface{}{"property": "difftest", "pkg": it.Pkg, "harness": it.Fn, "case": it.Case, "kind": "none", "inputs": res.InputsUsed}
			b, _ := json.Marshal(rf)
			os.WriteFile(filepath.Join(ddir, name), b, 0o644)
			eng[name] = res.Observed
			switch {
			case len(res.Inconclusive) > 0:
				engOutcome[name] = "inconclusive: " + res.Inconclusive[0]
			case len(res.Findings) > 0:
				engOutcome[name] = res.Findings[0].Kind
			case res.PathsEnded["assume"] > 0:
				engOutcome[name] = "assume-failed"
			default:
				engOutcome[name] = "ok"
			}
			names = append(names, name)
		}
		sort.Strings(names)
		nat, natOutcome, detail := nativeDiffRun(work, it.Pkg, it.Fn, ddir)
		if nat == nil {
			fmt.Printf("DIFFTEST %s %s: native run failed: %s\n", it.Pkg, it.Fn, detail)
			mismatches++
			continue
		}
		agree := 0
		for _, n := range names {
			total++
			eo, no := engOutcome[n], natOutcome[n]
			if strings.HasPrefix(eo, "inconclusive") {
				fmt.Printf("DIFFTEST %s %s %s: executor %s\n", it.Pkg, it.Fn, n, eo)
				mismatches++
				continue
			}
			same := outcomeClass(eo) == outcomeClass(no) && strings.Join(eng[n], ";") == strings.Join(nat[n], ";")
			if !same {
				mismatches++
				fmt.Printf("DIFFTEST MISMATCH %s %s %s:\n  executor: %s %v\n  native:   %s %v\n  inputs: %s\n", it.Pkg, it.Fn, n, eo, eng[n], no, nat[n], filepath.Join(ddir, n))
				// keep the vector for inspection
				os.MkdirAll(filepath.Join(verifDir, "replays"), 0o755)
				b, _ := os.ReadFile(filepath.Join(ddir, n))
				os.WriteFile(filepath.Join(verifDir, "replays", fmt.Sprintf("difftest-%s-%s", it.Fn, n)), b, 0o644)
			} else {
				agree++
			}
		}
		report[it.Pkg+"."+it.Fn] = map[string]int{"vectors": len(names), "agree": agree}
		fmt.Printf("difftest %s %s: %d/%d vectors agree\n", it.Pkg, it.Fn, agree, len(names))
	}
	rb, _ := json.MarshalIndent(map[string]interface{}{"vectors": total, "mismatches": mismatches, "per_function": report}, "", " ")
	os.MkdirAll(filepath.Join(verifDir, "evidence"), 0o755)
	os.WriteFile(filepath.Join(verifDir, "evidence", "difftest.json"), rb, 0o644)
	fmt.Printf("difftest: %d vectors, %d mismatches\n", total, mismatches)
	os.RemoveAll(work)
	if mismatches > 0 {
		os.Exit(3)
	}
}

func outcomeClass(o string) string {
	switch {
	case o == "ok", o == "assume-failed":
		return o
	case strings.HasPrefix(o, "assert"):
		return "assert"
	case strings.HasPrefix(o, "panic"):
		return "panic"
	}
	return o
}

// nativeDiffRun runs every input vector of dir natively and returns the observations per vector.
func nativeDiffRun(work, pkg, harness, dir string) (map[string][]string, map[string]string, string) {
	rdir, err := os.MkdirTemp(work, "native")
	if err != nil {
		return nil, nil, err.Error()
	}
	ov, _ := buildOverlay(pkg, true)
	repl := map[string]string{}
	pkgName := ""
	k := 0
	for p, content := range ov {
		k++
		local := filepath.Join(rdir, fmt.Sprintf("f%d_%s", k, filepath.Base(p)))
		os.WriteFile(local, content, 0o644)
		repl[p] = local
		if pkgName == "" {
			for _, line := range strings.Split(string(content), "\n") {
				if strings.HasPrefix(line, "package ") {
					pkgName = strings.TrimSpace(strings.TrimPrefix(line, "package "))
					break
				}
			}
		}
	}
	test := fmt.Sprintf(`package %s

import (
	"fmt"
	"os"
	"path/filepath"
	"sort"
	"testing"
)

func TestVFDiff(t *testing.T) {
	files, _ := filepath.Glob(filepath.Join(os.Getenv("VF_DIFF_DIR"), "*.json"))
	sort.Strings(files)
	for _, f := range files {
		os.Setenv("VF_REPLAY", f)
		vfR = nil
		fmt.Printf("VF-DIFF-BEGIN %%s\n", filepath.Base(f))
		func() {
			defer func() {
				switch x := recover().(type) {
				case nil:
					fmt.Println("VF-OUTCOME: ok")
				case VfFailure:
					fmt.Printf("VF-OUTCOME: assert %%s\n", x.Label)
				case VfAssumeFailed:
					fmt.Println("VF-OUTCOME: assume-failed")
				default:
					fmt.Printf("VF-OUTCOME: panic %%v\n", x)
				}
			}()
			%s()
		}()
	}
}
`, pkgName, harness)
	tp := filepath.Join(repoDir, pkg, "zz_vf_diff_test.go")
	local := filepath.Join(rdir, "diff_test.go")
	os.WriteFile(local, []byte(test), 0o644)
	repl[tp] = local
	oj, _ := json.Marshal(map[string]interface{}{"Replace": repl})
	ovPath := filepath.Join(rdir, "overlay.json")
	os.WriteFile(ovPath, oj, 0o644)
	cmd := exec.Command("go", "test", "-v", "-vet=off", "-count=1", "-run", "^TestVFDiff$", "-timeout", "300s", "-overlay", ovPath, "./"+pkg)
	cmd.Dir = repoDir
	cmd.Env = append(os.Environ(), "VF_DIFF_DIR="+dir, "GOFLAGS=-mod=mod")
	out, _ := cmd.CombinedOutput()
	obs := map[string][]string{}
	outc := map[string]string{}
	cur := ""
	for _, line := range strings.Split(string(out), "\n") {
		switch {
		case strings.HasPrefix(line, "VF-DIFF-BEGIN "):
			cur = strings.TrimPrefix(line, "VF-DIFF-BEGIN ")
			obs[cur] = nil
		case strings.HasPrefix(line, "VF-OBS ") && cur != "":
			obs[cur] = append(obs[cur], strings.TrimPrefix(line, "VF-OBS "))
		case strings.HasPrefix(line, "VF-OUTCOME: ") && cur != "":
			outc[cur] = strings.TrimPrefix(line, "VF-OUTCOME: ")
		}
	}
	if len(outc) == 0 {
		return nil, nil, lastLines(string(out), 12)
	}
	return obs, outc, ""
}

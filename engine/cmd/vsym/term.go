package main

// Hash-consed SMT term DAG with eager simplification.
// Bit-vector terms have width 1..64 (W>0); boolean terms have W==0.

import (
	"fmt"
	"math/bits"
	"sort"
	"strings"
)

type Op uint8

const (
	OpConst  Op = iota // BV constant
	OpVar              // BV variable
	OpBConst           // Bool constant
	OpBVar             // Bool variable
	OpAdd
	OpSub
	OpMul
	OpUDiv
	OpURem
	OpSDiv
	OpSRem
	OpAnd
	OpOr
	OpXor
	OpNot // bvnot
	OpNeg
	OpShl
	OpLShr
	OpAShr
	OpConcat
	OpExtract // Val = hi<<8|lo
	OpZExt
	OpSExt
	OpIte
	OpEq
	OpUlt
	OpUle
	OpSlt
	OpSle
	OpBAnd
	OpBOr
	OpBNot
	OpSelect // byte of an uninterpreted array: Name, Args[0]=index (64) -> BV8
	OpUF     // uninterpreted function: Name, Args, result width W (0 = Bool)
)

var opNames = map[Op]string{
	OpAdd: "bvadd", OpSub: "bvsub", OpMul: "bvmul", OpUDiv: "bvudiv", OpURem: "bvurem", OpSDiv: "bvsdiv", OpSRem: "bvsrem",
	OpAnd: "bvand", OpOr: "bvor", OpXor: "bvxor", OpNot: "bvnot", OpNeg: "bvneg", OpShl: "bvshl", OpLShr: "bvlshr", OpAShr: "bvashr",
	OpConcat: "concat", OpIte: "ite", OpEq: "=", OpUlt: "bvult", OpUle: "bvule", OpSlt: "bvslt", OpSle: "bvsle",
	OpBAnd: "and", OpBOr: "or", OpBNot: "not",
}

type Term struct {
	Op   Op
	W    int
	Args []*Term
	Val  uint64
	Name string
	ID   int
	// UF signature (OpUF only): argument widths are taken from Args.
}

func (t *Term) IsConst() bool { return t.Op == OpConst || t.Op == OpBConst }
func (t *Term) IsBool() bool  { return t.W == 0 }

var (
	termTab   = map[string]*Term{}
	termCount int
	TTrue     *Term
	TFalse    *Term
)

func init() {
	TTrue = mk(&Term{Op: OpBConst, Val: 1})
	TFalse = mk(&Term{Op: OpBConst, Val: 0})
}

func mk(t *Term) *Term {
	var sb strings.Builder
	fmt.Fprintf(&sb, "%d|%d|%d|%s", t.Op, t.W, t.Val, t.Name)
	for _, a := range t.Args {
		fmt.Fprintf(&sb, "|%d", a.ID)
	}
	k := sb.String()
	if x, ok := termTab[k]; ok {
		return x
	}
	termCount++
	t.ID = termCount
	termTab[k] = t
	return t
}

func mask(w int) uint64 {
	if w >= 64 {
		return ^uint64(0)
	}
	return (uint64(1) << uint(w)) - 1
}

func sext64(v uint64, w int) int64 {
	if w >= 64 {
		return int64(v)
	}
	s := uint(64 - w)
	return int64(v<<s) >> s
}

func BV(w int, v uint64) *Term {
	if w <= 0 || w > 64 {
		panic(fmt.Sprintf("BV: bad width %d", w))
	}
	return mk(&Term{Op: OpConst, W: w, Val: v & mask(w)})
}
func Bool(b bool) *Term {
	if b {
		return TTrue
	}
	return TFalse
}
func Var(name string, w int) *Term {
	if w == 0 {
		return mk(&Term{Op: OpBVar, Name: name})
	}
	return mk(&Term{Op: OpVar, W: w, Name: name})
}

func (t *Term) ConstVal() (uint64, bool) {
	if t.Op == OpConst || t.Op == OpBConst {
		return t.Val, true
	}
	return 0, false
}

func (t *Term) String() string {
	switch t.Op {
	case OpConst:
		return fmt.Sprintf("%#x:%d", t.Val, t.W)
	case OpBConst:
		if t.Val != 0 {
			return "true"
		}
		return "false"
	case OpVar, OpBVar:
		return t.Name
	}
	return smtInline(t, 4)
}

// ---------------------------------------------------------------- arithmetic

// linear normal form for add/sub/neg/mul-by-const over one width
type lin struct {
	coef map[*Term]uint64
	c    uint64
}

func linearize(t *Term, mul uint64, l *lin) {
	switch t.Op {
	case OpConst:
		l.c += mul * t.Val
	case OpAdd:
		linearize(t.Args[0], mul, l)
		linearize(t.Args[1], mul, l)
	case OpSub:
		linearize(t.Args[0], mul, l)
		linearize(t.Args[1], -mul, l)
	case OpNeg:
		linearize(t.Args[0], -mul, l)
	case OpMul:
		if c, ok := t.Args[0].ConstVal(); ok {
			linearize(t.Args[1], mul*c, l)
			return
		}
		if c, ok := t.Args[1].ConstVal(); ok {
			linearize(t.Args[0], mul*c, l)
			return
		}
		l.coef[t] += mul
	default:
		l.coef[t] += mul
	}
}

func rebuildLin(w int, l *lin) *Term {
	m := mask(w)
	type kv struct {
		t *Term
		c uint64
	}
	var pos, neg []kv
	for t, c := range l.coef {
		c &= m
		if c == 0 {
			continue
		}
		// prefer small negative coefficients as subtraction
		if c > m/2 {
			neg = append(neg, kv{t, (-c) & m})
		} else {
			pos = append(pos, kv{t, c})
		}
	}
	sort.Slice(pos, func(i, j int) bool { return pos[i].t.ID < pos[j].t.ID })
	sort.Slice(neg, func(i, j int) bool { return neg[i].t.ID < neg[j].t.ID })
	var acc *Term
	scaled := func(k kv) *Term {
		if k.c == 1 {
			return k.t
		}
		return mk(&Term{Op: OpMul, W: w, Args: []*Term{BV(w, k.c), k.t}})
	}
	for _, k := range pos {
		if acc == nil {
			acc = scaled(k)
		} else {
			acc = mk(&Term{Op: OpAdd, W: w, Args: []*Term{acc, scaled(k)}})
		}
	}
	cst := l.c & m
	if acc == nil {
		if len(neg) == 0 {
			return BV(w, cst)
		}
		if cst != 0 {
			acc = BV(w, cst)
			cst = 0
		} else {
			acc = mk(&Term{Op: OpNeg, W: w, Args: []*Term{scaled(neg[0])}})
			neg = neg[1:]
		}
	}
	for _, k := range neg {
		acc = mk(&Term{Op: OpSub, W: w, Args: []*Term{acc, scaled(k)}})
	}
	if cst != 0 {
		if cst > m/2 && w > 1 {
			acc = mk(&Term{Op: OpSub, W: w, Args: []*Term{acc, BV(w, (-cst)&m)}})
		} else {
			acc = mk(&Term{Op: OpAdd, W: w, Args: []*Term{acc, BV(w, cst)}})
		}
	}
	return acc
}

func linOp(op Op, a, b *Term) *Term {
	l := &lin{coef: map[*Term]uint64{}}
	linearize(a, 1, l)
	if op == OpAdd {
		linearize(b, 1, l)
	} else {
		linearize(b, ^uint64(0), l)
	}
	return rebuildLin(a.W, l)
}

func chkW(a, b *Term) {
	if a.W != b.W {
		panic(fmt.Sprintf("width mismatch %d vs %d: %v / %v", a.W, b.W, a, b))
	}
}

func Add(a, b *Term) *Term { chkW(a, b); return linOp(OpAdd, a, b) }
func Sub(a, b *Term) *Term { chkW(a, b); return linOp(OpSub, a, b) }
func Neg(a *Term) *Term    { return Sub(BV(a.W, 0), a) }

func Mul(a, b *Term) *Term {
	chkW(a, b)
	if x, ok := a.ConstVal(); ok {
		if y, ok := b.ConstVal(); ok {
			return BV(a.W, x*y)
		}
		a, b = b, a
	}
	if y, ok := b.ConstVal(); ok {
		switch {
		case y == 0:
			return BV(a.W, 0)
		case y == 1:
			return a
		}
		if y&(y-1) == 0 {
			return Shl(a, BV(a.W, uint64(bits.TrailingZeros64(y))))
		}
		return mk(&Term{Op: OpMul, W: a.W, Args: []*Term{b, a}})
	}
	if a.ID > b.ID {
		a, b = b, a
	}
	return mk(&Term{Op: OpMul, W: a.W, Args: []*Term{a, b}})
}

// isZextMulConst recognises zext_k(x)*C (as built by Mul: const first) where the product cannot overflow.
func isZextMulConst(t *Term, c uint64) (*Term, bool) {
	if t.Op != OpMul {
		return nil, false
	}
	cv, ok := t.Args[0].ConstVal()
	if !ok || cv != c {
		return nil, false
	}
	x := t.Args[1]
	if x.Op != OpZExt {
		return nil, false
	}
	inner := x.Args[0].W
	// x < 2^inner, c < 2^k  => product < 2^(inner+k) must fit in W-1 bits (also for signed ops)
	if inner+bits.Len64(c) <= t.W-1 {
		return x, true
	}
	return nil, false
}

func UDiv(a, b *Term) *Term {
	chkW(a, b)
	if y, ok := b.ConstVal(); ok {
		if x, ok := a.ConstVal(); ok && y != 0 {
			return BV(a.W, x/y)
		}
		if y == 1 {
			return a
		}
		if y != 0 && y&(y-1) == 0 {
			return LShr(a, BV(a.W, uint64(bits.TrailingZeros64(y))))
		}
		if x, ok := isZextMulConst(a, y); ok {
			return x
		}
	}
	return mk(&Term{Op: OpUDiv, W: a.W, Args: []*Term{a, b}})
}
func URem(a, b *Term) *Term {
	chkW(a, b)
	if y, ok := b.ConstVal(); ok {
		if x, ok := a.ConstVal(); ok && y != 0 {
			return BV(a.W, x%y)
		}
		if y == 1 {
			return BV(a.W, 0)
		}
		if y != 0 && y&(y-1) == 0 {
			return And(a, BV(a.W, y-1))
		}
		if _, ok := isZextMulConst(a, y); ok {
			return BV(a.W, 0)
		}
	}
	return mk(&Term{Op: OpURem, W: a.W, Args: []*Term{a, b}})
}
func SDiv(a, b *Term) *Term {
	chkW(a, b)
	if y, ok := b.ConstVal(); ok {
		if x, ok := a.ConstVal(); ok && y != 0 {
			sx, sy := sext64(x, a.W), sext64(y, a.W)
			if !(sy == -1 && sx == sext64(uint64(1)<<uint(a.W-1), a.W)) {
				return BV(a.W, uint64(sx/sy))
			}
		}
		if y == 1 {
			return a
		}
		if x, ok := isZextMulConst(a, y); ok {
			return x
		}
	}
	return mk(&Term{Op: OpSDiv, W: a.W, Args: []*Term{a, b}})
}
func SRem(a, b *Term) *Term {
	chkW(a, b)
	if y, ok := b.ConstVal(); ok {
		if x, ok := a.ConstVal(); ok && y != 0 {
			sx, sy := sext64(x, a.W), sext64(y, a.W)
			if sy != -1 {
				return BV(a.W, uint64(sx%sy))
			}
			return BV(a.W, 0)
		}
		if y == 1 {
			return BV(a.W, 0)
		}
		if _, ok := isZextMulConst(a, y); ok {
			return BV(a.W, 0)
		}
	}
	return mk(&Term{Op: OpSRem, W: a.W, Args: []*Term{a, b}})
}

func And(a, b *Term) *Term {
	chkW(a, b)
	if a == b {
		return a
	}
	if x, ok := a.ConstVal(); ok {
		if y, ok := b.ConstVal(); ok {
			return BV(a.W, x&y)
		}
		a, b = b, a
	}
	if y, ok := b.ConstVal(); ok {
		if y == 0 {
			return BV(a.W, 0)
		}
		if y == mask(a.W) {
			return a
		}
		// (zext x) & m  where m covers all of x's bits
		if a.Op == OpZExt && y&mask(a.Args[0].W) == mask(a.Args[0].W) {
			return a
		}
		// low-bit masks as extract+zext (helps the solver and later folding)
		if y&(y+1) == 0 {
			k := bits.Len64(y)
			return ZExt(Extract(a, k-1, 0), a.W)
		}
	}
	if a.ID > b.ID {
		a, b = b, a
	}
	return mk(&Term{Op: OpAnd, W: a.W, Args: []*Term{a, b}})
}
func Or(a, b *Term) *Term {
	chkW(a, b)
	if a == b {
		return a
	}
	if x, ok := a.ConstVal(); ok {
		if y, ok := b.ConstVal(); ok {
			return BV(a.W, x|y)
		}
		a, b = b, a
	}
	if y, ok := b.ConstVal(); ok {
		if y == 0 {
			return a
		}
		if y == mask(a.W) {
			return b
		}
	}
	if r := orDisjoint(a, b); r != nil {
		return r
	}
	if a.ID > b.ID {
		a, b = b, a
	}
	return mk(&Term{Op: OpOr, W: a.W, Args: []*Term{a, b}})
}

// A term as a most-significant-first list of segments; t == nil means n zero bits.
type bitSeg struct {
	t *Term
	n int
}

func segmentsOf(t *Term, out []bitSeg) []bitSeg {
	switch t.Op {
	case OpConst:
		if t.Val == 0 {
			return append(out, bitSeg{nil, t.W})
		}
	case OpZExt:
		out = append(out, bitSeg{nil, t.W - t.Args[0].W})
		return segmentsOf(t.Args[0], out)
	case OpConcat:
		out = segmentsOf(t.Args[0], out)
		return segmentsOf(t.Args[1], out)
	}
	return append(out, bitSeg{t, t.W})
}

// orDisjoint rewrites a|b as a concatenation when, at every bit, at least one side is a known zero
// (the shape produced by assembling an integer from its bytes: b0<<56 | b1<<48 | ...).
func orDisjoint(a, b *Term) *Term {
	sa := segmentsOf(a, nil)
	sb := segmentsOf(b, nil)
	hasZero := func(s []bitSeg) bool {
		for _, x := range s {
			if x.t == nil {
				return true
			}
		}
		return false
	}
	if !hasZero(sa) || !hasZero(sb) {
		return nil
	}
	var res *Term
	i, j := 0, 0
	ra, rb := sa[0].n, sb[0].n // remaining bits of the current segments
	for i < len(sa) && j < len(sb) {
		n := min(ra, rb)
		piece := func(s bitSeg, rem int) *Term {
			if s.t == nil {
				return nil
			}
			// the top `rem` bits of s remain; take the top n of those
			hi := rem - 1
			return Extract(s.t, hi, hi-n+1)
		}
		pa, pb := piece(sa[i], ra), piece(sb[j], rb)
		var p *Term
		switch {
		case pa == nil && pb == nil:
			p = BV(n, 0)
		case pa == nil:
			p = pb
		case pb == nil:
			p = pa
		default:
			return nil
		}
		if res == nil {
			res = p
		} else {
			res = Concat(res, p)
		}
		ra -= n
		rb -= n
		if ra == 0 {
			i++
			if i < len(sa) {
				ra = sa[i].n
			}
		}
		if rb == 0 {
			j++
			if j < len(sb) {
				rb = sb[j].n
			}
		}
	}
	return res
}
func Xor(a, b *Term) *Term {
	chkW(a, b)
	if a == b {
		return BV(a.W, 0)
	}
	if x, ok := a.ConstVal(); ok {
		if y, ok := b.ConstVal(); ok {
			return BV(a.W, x^y)
		}
		a, b = b, a
	}
	if y, ok := b.ConstVal(); ok {
		if y == 0 {
			return a
		}
		if y == mask(a.W) {
			return BvNot(a)
		}
	}
	if a.ID > b.ID {
		a, b = b, a
	}
	return mk(&Term{Op: OpXor, W: a.W, Args: []*Term{a, b}})
}
func BvNot(a *Term) *Term {
	if x, ok := a.ConstVal(); ok {
		return BV(a.W, ^x)
	}
	if a.Op == OpNot {
		return a.Args[0]
	}
	return mk(&Term{Op: OpNot, W: a.W, Args: []*Term{a}})
}

// shifts: SMT-LIB semantics (amount >= width gives 0 / sign fill), same width operands
func Shl(a, b *Term) *Term {
	chkW(a, b)
	if y, ok := b.ConstVal(); ok {
		if y == 0 {
			return a
		}
		if y >= uint64(a.W) {
			return BV(a.W, 0)
		}
		if x, ok := a.ConstVal(); ok {
			return BV(a.W, x<<y)
		}
		// x << k  = concat(extract(W-1-k,0,x), 0_k)
		return Concat(Extract(a, a.W-1-int(y), 0), BV(int(y), 0))
	}
	if x, ok := a.ConstVal(); ok && x == 0 {
		return a
	}
	return mk(&Term{Op: OpShl, W: a.W, Args: []*Term{a, b}})
}
func LShr(a, b *Term) *Term {
	chkW(a, b)
	if y, ok := b.ConstVal(); ok {
		if y == 0 {
			return a
		}
		if y >= uint64(a.W) {
			return BV(a.W, 0)
		}
		if x, ok := a.ConstVal(); ok {
			return BV(a.W, x>>y)
		}
		return ZExt(Extract(a, a.W-1, int(y)), a.W)
	}
	if x, ok := a.ConstVal(); ok && x == 0 {
		return a
	}
	return mk(&Term{Op: OpLShr, W: a.W, Args: []*Term{a, b}})
}
func AShr(a, b *Term) *Term {
	chkW(a, b)
	if y, ok := b.ConstVal(); ok {
		if y == 0 {
			return a
		}
		if x, ok := a.ConstVal(); ok {
			if y >= uint64(a.W) {
				y = uint64(a.W - 1)
			}
			return BV(a.W, uint64(sext64(x, a.W)>>y))
		}
		if y >= uint64(a.W) {
			y = uint64(a.W - 1)
		}
		return SExt(Extract(a, a.W-1, int(y)), a.W)
	}
	return mk(&Term{Op: OpAShr, W: a.W, Args: []*Term{a, b}})
}

func Concat(hi, lo *Term) *Term {
	w := hi.W + lo.W
	if w > 64 {
		panic("concat > 64 bits")
	}
	if x, ok := hi.ConstVal(); ok {
		if y, ok := lo.ConstVal(); ok {
			return BV(w, x<<uint(lo.W)|y)
		}
		if x == 0 {
			return ZExt(lo, w)
		}
	}
	// concat(concat(p, extract(h,m+1,x)), extract(m,l,x)) = concat(p, extract(h,l,x))
	if hi.Op == OpConcat && lo.Op == OpExtract && hi.Args[1].Op == OpExtract && hi.Args[1].Args[0] == lo.Args[0] {
		hl := int(hi.Args[1].Val & 0xff)
		lh := int(lo.Val >> 8)
		if hl == lh+1 {
			return Concat(hi.Args[0], Concat(hi.Args[1], lo))
		}
	}
	// concat(extract(h,m+1,x), extract(m,l,x)) = extract(h,l,x)
	if hi.Op == OpExtract && lo.Op == OpExtract && hi.Args[0] == lo.Args[0] {
		hh, hl := int(hi.Val>>8), int(hi.Val&0xff)
		lh, ll := int(lo.Val>>8), int(lo.Val&0xff)
		if hl == lh+1 {
			return Extract(hi.Args[0], hh, ll)
		}
	}
	return mk(&Term{Op: OpConcat, W: w, Args: []*Term{hi, lo}})
}

func Extract(a *Term, hi, lo int) *Term {
	if hi < lo || hi >= a.W || lo < 0 {
		panic(fmt.Sprintf("extract %d %d of width %d", hi, lo, a.W))
	}
	w := hi - lo + 1
	if w == a.W {
		return a
	}
	if x, ok := a.ConstVal(); ok {
		return BV(w, x>>uint(lo))
	}
	switch a.Op {
	case OpExtract:
		l0 := int(a.Val & 0xff)
		return Extract(a.Args[0], hi+l0, lo+l0)
	case OpZExt:
		in := a.Args[0]
		if hi < in.W {
			return Extract(in, hi, lo)
		}
		if lo >= in.W {
			return BV(w, 0)
		}
		return ZExt(Extract(in, in.W-1, lo), w)
	case OpSExt:
		in := a.Args[0]
		if hi < in.W {
			return Extract(in, hi, lo)
		}
	case OpConcat:
		h, l := a.Args[0], a.Args[1]
		if hi < l.W {
			return Extract(l, hi, lo)
		}
		if lo >= l.W {
			return Extract(h, hi-l.W, lo-l.W)
		}
		return Concat(Extract(h, hi-l.W, 0), Extract(l, l.W-1, lo))
	case OpIte:
		if a.Args[1].IsConst() && a.Args[2].IsConst() {
			return Ite(a.Args[0], Extract(a.Args[1], hi, lo), Extract(a.Args[2], hi, lo))
		}
	case OpAnd, OpOr, OpXor:
		if lo == 0 || a.Args[0].IsConst() || a.Args[1].IsConst() {
			x, y := Extract(a.Args[0], hi, lo), Extract(a.Args[1], hi, lo)
			switch a.Op {
			case OpAnd:
				return And(x, y)
			case OpOr:
				return Or(x, y)
			default:
				return Xor(x, y)
			}
		}
	case OpAdd:
		// (zext(x:k) + c) with the low k' >= k bits of c zero: no carry out of the low part
		if c, ok := a.Args[1].ConstVal(); ok && lo > 0 && c&mask(lo) == 0 {
			if x := a.Args[0]; x.Op == OpZExt && x.Args[0].W <= lo {
				return BV(w, c>>uint(lo))
			}
		}
		fallthrough
	case OpSub:
		// low bits of a sum depend only on the low bits of the operands
		if lo == 0 && a.Args[1].IsConst() {
			x, y := Extract(a.Args[0], hi, 0), Extract(a.Args[1], hi, 0)
			if a.Op == OpAdd {
				return Add(x, y)
			}
			return Sub(x, y)
		}
	}
	return mk(&Term{Op: OpExtract, W: w, Args: []*Term{a}, Val: uint64(hi)<<8 | uint64(lo)})
}

func ZExt(a *Term, w int) *Term {
	if w == a.W {
		return a
	}
	if w < a.W {
		return Extract(a, w-1, 0)
	}
	if x, ok := a.ConstVal(); ok {
		return BV(w, x)
	}
	if a.Op == OpZExt {
		return ZExt(a.Args[0], w)
	}
	return mk(&Term{Op: OpZExt, W: w, Args: []*Term{a}})
}
func SExt(a *Term, w int) *Term {
	if w == a.W {
		return a
	}
	if w < a.W {
		return Extract(a, w-1, 0)
	}
	if x, ok := a.ConstVal(); ok {
		return BV(w, uint64(sext64(x, a.W)))
	}
	if a.Op == OpZExt {
		return ZExt(a.Args[0], w)
	}
	if a.Op == OpSExt {
		return SExt(a.Args[0], w)
	}
	return mk(&Term{Op: OpSExt, W: w, Args: []*Term{a}})
}

// ---------------------------------------------------------------- boolean

func Not(a *Term) *Term {
	switch a.Op {
	case OpBConst:
		return Bool(a.Val == 0)
	case OpBNot:
		return a.Args[0]
	}
	return mk(&Term{Op: OpBNot, Args: []*Term{a}})
}
func AndB(xs ...*Term) *Term {
	var out []*Term
	seen := map[*Term]bool{}
	for _, x := range xs {
		if x.Op == OpBConst {
			if x.Val == 0 {
				return TFalse
			}
			continue
		}
		if x.Op == OpBAnd {
			for _, y := range x.Args {
				if !seen[y] {
					seen[y] = true
					out = append(out, y)
				}
			}
			continue
		}
		if !seen[x] {
			seen[x] = true
			out = append(out, x)
		}
	}
	for _, x := range out {
		if seen[Not(x)] && x.Op != OpBNot {
			return TFalse
		}
	}
	switch len(out) {
	case 0:
		return TTrue
	case 1:
		return out[0]
	}
	return mk(&Term{Op: OpBAnd, Args: out})
}
func OrB(xs ...*Term) *Term {
	var out []*Term
	seen := map[*Term]bool{}
	for _, x := range xs {
		if x.Op == OpBConst {
			if x.Val != 0 {
				return TTrue
			}
			continue
		}
		if x.Op == OpBOr {
			for _, y := range x.Args {
				if !seen[y] {
					seen[y] = true
					out = append(out, y)
				}
			}
			continue
		}
		if !seen[x] {
			seen[x] = true
			out = append(out, x)
		}
	}
	for _, x := range out {
		if seen[Not(x)] && x.Op != OpBNot {
			return TTrue
		}
	}
	switch len(out) {
	case 0:
		return TFalse
	case 1:
		return out[0]
	}
	return mk(&Term{Op: OpBOr, Args: out})
}
func Implies(a, b *Term) *Term { return OrB(Not(a), b) }

func Ite(c, a, b *Term) *Term {
	chkW(a, b)
	if c.Op == OpBConst {
		if c.Val != 0 {
			return a
		}
		return b
	}
	if a == b {
		return a
	}
	if c.Op == OpBNot {
		return Ite(c.Args[0], b, a)
	}
	if a.W == 0 {
		if a.Op == OpBConst && b.Op == OpBConst {
			if a.Val != 0 {
				return c
			}
			return Not(c)
		}
		if a.Op == OpBConst {
			if a.Val != 0 {
				return OrB(c, b)
			}
			return AndB(Not(c), b)
		}
		if b.Op == OpBConst {
			if b.Val != 0 {
				return OrB(Not(c), a)
			}
			return AndB(c, a)
		}
	}
	// ite(c, x, ite(c, y, z)) = ite(c, x, z)
	if b.Op == OpIte && b.Args[0] == c {
		return Ite(c, a, b.Args[2])
	}
	if a.Op == OpIte && a.Args[0] == c {
		return Ite(c, a.Args[1], b)
	}
	return mk(&Term{Op: OpIte, W: a.W, Args: []*Term{c, a, b}})
}

func Eq(a, b *Term) *Term {
	chkW(a, b)
	if a == b {
		return TTrue
	}
	if x, ok := a.ConstVal(); ok {
		if y, ok := b.ConstVal(); ok {
			return Bool(x == y)
		}
		a, b = b, a
	}
	if a.W == 0 {
		if y, ok := b.ConstVal(); ok {
			if y != 0 {
				return a
			}
			return Not(a)
		}
	} else if y, ok := b.ConstVal(); ok {
		switch a.Op {
		case OpIte:
			// eq(ite(c,k1,k2), k)
			if a.Args[1].IsConst() && a.Args[2].IsConst() {
				return Ite(a.Args[0], Eq(a.Args[1], b), Eq(a.Args[2], b))
			}
		case OpZExt:
			in := a.Args[0]
			if y > mask(in.W) {
				return TFalse
			}
			return Eq(in, BV(in.W, y))
		case OpAdd:
			if c, ok := a.Args[1].ConstVal(); ok {
				return Eq(a.Args[0], BV(a.W, y-c))
			}
		case OpSub:
			if c, ok := a.Args[1].ConstVal(); ok {
				return Eq(a.Args[0], BV(a.W, y+c))
			}
		case OpXor:
			if c, ok := a.Args[1].ConstVal(); ok {
				return Eq(a.Args[0], BV(a.W, y^c))
			}
		}
	}
	if a.W > 1 && (a.Op == OpAdd || a.Op == OpSub || b.Op == OpAdd || b.Op == OpSub) {
		// linear terms: decide by the difference, or at least cancel common summands
		l := &lin{coef: map[*Term]uint64{}}
		linearize(a, 1, l)
		linearize(b, ^uint64(0), l)
		m := mask(a.W)
		var ts []*Term
		var cs []uint64
		for t, c := range l.coef {
			if c&m != 0 {
				ts = append(ts, t)
				cs = append(cs, c&m)
			}
		}
		k := l.c & m
		switch {
		case len(ts) == 0:
			return Bool(k == 0)
		case len(ts) == 1 && cs[0] == 1: // t + k == 0
			if ts[0].Op != OpAdd && ts[0].Op != OpSub {
				return Eq(ts[0], BV(a.W, (-k)&m))
			}
		case len(ts) == 1 && cs[0] == m: // -t + k == 0
			if ts[0].Op != OpAdd && ts[0].Op != OpSub {
				return Eq(ts[0], BV(a.W, k))
			}
		case len(ts) == 2 && k == 0 && (cs[0] == 1 && cs[1] == m || cs[0] == m && cs[1] == 1):
			x, y := ts[0], ts[1]
			if x.Op != OpAdd && x.Op != OpSub && y.Op != OpAdd && y.Op != OpSub {
				if x.ID > y.ID {
					x, y = y, x
				}
				return mk(&Term{Op: OpEq, Args: []*Term{x, y}})
			}
		}
		// canonical form: difference == 0
		d := rebuildLin(a.W, l)
		z := BV(a.W, 0)
		if d.ID > z.ID {
			return mk(&Term{Op: OpEq, Args: []*Term{z, d}})
		}
		return mk(&Term{Op: OpEq, Args: []*Term{d, z}})
	}
	if a.ID > b.ID {
		a, b = b, a
	}
	return mk(&Term{Op: OpEq, Args: []*Term{a, b}})
}

func Ult(a, b *Term) *Term {
	chkW(a, b)
	if a == b {
		return TFalse
	}
	x, xo := a.ConstVal()
	y, yo := b.ConstVal()
	if xo && yo {
		return Bool(x < y)
	}
	if yo && y == 0 {
		return TFalse
	}
	if yo && y == 1 {
		return Eq(a, BV(a.W, 0))
	}
	if xo && x == mask(a.W) {
		return TFalse
	}
	if xo && x == 0 {
		return Not(Eq(b, BV(a.W, 0)))
	}
	if yo && a.Op == OpZExt {
		in := a.Args[0]
		if y > mask(in.W) {
			return TTrue
		}
		return Ult(in, BV(in.W, y))
	}
	if xo && b.Op == OpZExt {
		in := b.Args[0]
		if x >= mask(in.W) {
			return TFalse
		}
		return Ult(BV(in.W, x), in)
	}
	if a.Op == OpZExt && b.Op == OpZExt && a.Args[0].W == b.Args[0].W {
		return Ult(a.Args[0], b.Args[0])
	}
	return mk(&Term{Op: OpUlt, Args: []*Term{a, b}})
}
func Ule(a, b *Term) *Term { return Not(Ult(b, a)) }
func Ugt(a, b *Term) *Term { return Ult(b, a) }
func Uge(a, b *Term) *Term { return Not(Ult(a, b)) }

func Slt(a, b *Term) *Term {
	chkW(a, b)
	if a == b {
		return TFalse
	}
	x, xo := a.ConstVal()
	y, yo := b.ConstVal()
	if xo && yo {
		return Bool(sext64(x, a.W) < sext64(y, a.W))
	}
	// zero-extended operands are non-negative: signed compare == unsigned compare
	nn := func(t *Term) bool {
		if t.Op == OpZExt {
			return true
		}
		if v, ok := t.ConstVal(); ok {
			return sext64(v, t.W) >= 0
		}
		return false
	}
	if nn(a) && nn(b) {
		return Ult(a, b)
	}
	return mk(&Term{Op: OpSlt, Args: []*Term{a, b}})
}
func Sle(a, b *Term) *Term { return Not(Slt(b, a)) }
func Sgt(a, b *Term) *Term { return Slt(b, a) }
func Sge(a, b *Term) *Term { return Not(Slt(a, b)) }

func Select(arr string, idx *Term) *Term {
	return mk(&Term{Op: OpSelect, W: 8, Name: arr, Args: []*Term{idx}})
}
func UF(name string, w int, args ...*Term) *Term {
	return mk(&Term{Op: OpUF, W: w, Name: name, Args: args})
}

// ---------------------------------------------------------------- evaluation under a model

type Model struct {
	Vars      map[string]uint64            // BV / Bool variables
	Arrays    map[string]map[uint64]uint64 // select arrays (sparse)
	UFs       map[string]map[string]uint64 // uf name -> args key -> value
	ConstArrs map[string][]byte            // constant arrays known to the solver
}

func (m *Model) Eval(t *Term) uint64 {
	memo := map[*Term]uint64{}
	return m.eval(t, memo)
}

func (m *Model) eval(t *Term, memo map[*Term]uint64) uint64 {
	if v, ok := memo[t]; ok {
		return v
	}
	var r uint64
	a := func(i int) uint64 { return m.eval(t.Args[i], memo) }
	b2u := func(b bool) uint64 {
		if b {
			return 1
		}
		return 0
	}
	switch t.Op {
	case OpConst, OpBConst:
		r = t.Val
	case OpVar, OpBVar:
		r = m.Vars[t.Name]
	case OpAdd:
		r = a(0) + a(1)
	case OpSub:
		r = a(0) - a(1)
	case OpMul:
		r = a(0) * a(1)
	case OpUDiv:
		if a(1) == 0 {
			r = mask(t.W)
		} else {
			r = a(0) / a(1)
		}
	case OpURem:
		if a(1) == 0 {
			r = a(0)
		} else {
			r = a(0) % a(1)
		}
	case OpSDiv:
		x, y := sext64(a(0), t.W), sext64(a(1), t.W)
		if y == 0 {
			if x >= 0 {
				r = mask(t.W)
			} else {
				r = 1
			}
		} else if y == -1 {
			r = uint64(-x)
		} else {
			r = uint64(x / y)
		}
	case OpSRem:
		x, y := sext64(a(0), t.W), sext64(a(1), t.W)
		if y == 0 {
			r = uint64(x)
		} else if y == -1 {
			r = 0
		} else {
			r = uint64(x % y)
		}
	case OpAnd:
		r = a(0) & a(1)
	case OpOr:
		r = a(0) | a(1)
	case OpXor:
		r = a(0) ^ a(1)
	case OpNot:
		r = ^a(0)
	case OpNeg:
		r = -a(0)
	case OpShl:
		if a(1) >= uint64(t.W) {
			r = 0
		} else {
			r = a(0) << a(1)
		}
	case OpLShr:
		if a(1) >= uint64(t.W) {
			r = 0
		} else {
			r = a(0) >> a(1)
		}
	case OpAShr:
		s := a(1)
		if s >= uint64(t.W) {
			s = uint64(t.W - 1)
		}
		r = uint64(sext64(a(0), t.W) >> s)
	case OpConcat:
		r = a(0)<<uint(t.Args[1].W) | a(1)
	case OpExtract:
		r = a(0) >> (t.Val & 0xff)
	case OpZExt:
		r = a(0)
	case OpSExt:
		r = uint64(sext64(a(0), t.Args[0].W))
	case OpIte:
		if a(0) != 0 {
			r = a(1)
		} else {
			r = a(2)
		}
	case OpEq:
		r = b2u(a(0) == a(1))
	case OpUlt:
		r = b2u(a(0) < a(1))
	case OpUle:
		r = b2u(a(0) <= a(1))
	case OpSlt:
		r = b2u(sext64(a(0), t.Args[0].W) < sext64(a(1), t.Args[0].W))
	case OpSle:
		r = b2u(sext64(a(0), t.Args[0].W) <= sext64(a(1), t.Args[0].W))
	case OpBAnd:
		r = 1
		for i := range t.Args {
			if a(i) == 0 {
				r = 0
				break
			}
		}
	case OpBOr:
		r = 0
		for i := range t.Args {
			if a(i) != 0 {
				r = 1
				break
			}
		}
	case OpBNot:
		r = b2u(a(0) == 0)
	case OpSelect:
		if d, ok := m.ConstArrs[t.Name]; ok {
			if i := a(0); i < uint64(len(d)) {
				r = uint64(d[i])
			}
		} else {
			r = m.Arrays[t.Name][a(0)]
		}
	case OpUF:
		var sb strings.Builder
		for i := range t.Args {
			if i > 0 {
				sb.WriteByte(',')
			}
			fmt.Fprintf(&sb, "%d", a(i))
		}
		r = m.UFs[t.Name][sb.String()]
	default:
		panic("eval: op")
	}
	if t.W > 0 {
		r &= mask(t.W)
	}
	memo[t] = r
	return r
}

// ---------------------------------------------------------------- printing

func sortOf(w int) string {
	if w == 0 {
		return "Bool"
	}
	return fmt.Sprintf("(_ BitVec %d)", w)
}

func bvLit(w int, v uint64) string {
	if w%4 == 0 {
		return fmt.Sprintf("#x%0*x", w/4, v)
	}
	return fmt.Sprintf("#b%0*b", w, v)
}

func smtName(n string) string {
	ok := true
	for _, c := range n {
		if !(c >= 'a' && c <= 'z' || c >= 'A' && c <= 'Z' || c >= '0' && c <= '9' || c == '_' || c == '.' || c == '!' || c == '$') {
			ok = false
		}
	}
	if ok && n != "" && !(n[0] >= '0' && n[0] <= '9') {
		return n
	}
	return "|" + strings.ReplaceAll(n, "|", "!") + "|"
}

// smtHead prints t with its arguments replaced by the names given by ref.
func smtHead(t *Term, ref func(*Term) string) string {
	switch t.Op {
	case OpConst:
		return bvLit(t.W, t.Val)
	case OpBConst:
		if t.Val != 0 {
			return "true"
		}
		return "false"
	case OpVar, OpBVar:
		return smtName(t.Name)
	case OpExtract:
		return fmt.Sprintf("((_ extract %d %d) %s)", t.Val>>8, t.Val&0xff, ref(t.Args[0]))
	case OpZExt:
		return fmt.Sprintf("((_ zero_extend %d) %s)", t.W-t.Args[0].W, ref(t.Args[0]))
	case OpSExt:
		return fmt.Sprintf("((_ sign_extend %d) %s)", t.W-t.Args[0].W, ref(t.Args[0]))
	case OpSelect:
		return fmt.Sprintf("(select %s %s)", smtName(t.Name), ref(t.Args[0]))
	case OpUF:
		if len(t.Args) == 0 {
			return smtName(t.Name)
		}
		var sb strings.Builder
		sb.WriteString("(" + smtName(t.Name))
		for _, a := range t.Args {
			sb.WriteString(" " + ref(a))
		}
		sb.WriteString(")")
		return sb.String()
	}
	var sb strings.Builder
	sb.WriteString("(" + opNames[t.Op])
	for _, a := range t.Args {
		sb.WriteString(" " + ref(a))
	}
	sb.WriteString(")")
	return sb.String()
}

func smtInline(t *Term, depth int) string {
	if depth == 0 && len(t.Args) > 0 {
		return fmt.Sprintf("t%d", t.ID)
	}
	return smtHead(t, func(a *Term) string { return smtInline(a, depth-1) })
}

// collectVars lists the free variables, arrays and UFs of a term.
func collectLeaves(t *Term, seen map[*Term]bool, f func(*Term)) {
	if seen[t] {
		return
	}
	seen[t] = true
	for _, a := range t.Args {
		collectLeaves(a, seen, f)
	}
	f(t)
}

// upperBound returns a syntactic upper bound (unsigned) of a bit-vector term, if one is apparent.
func upperBound(t *Term) (uint64, bool) {
	switch t.Op {
	case OpConst:
		return t.Val, true
	case OpZExt:
		if b, ok := upperBound(t.Args[0]); ok {
			return b, true
		}
		return mask(t.Args[0].W), true
	case OpIte:
		a, ok1 := upperBound(t.Args[1])
		b, ok2 := upperBound(t.Args[2])
		if ok1 && ok2 {
			return max(a, b), true
		}
	case OpAdd:
		a, ok1 := upperBound(t.Args[0])
		b, ok2 := upperBound(t.Args[1])
		if ok1 && ok2 && a+b >= a && a+b <= mask(t.W) {
			return a + b, true
		}
	case OpExtract:
		return mask(t.W), t.W < 32
	case OpAnd:
		if b, ok := upperBound(t.Args[1]); ok {
			return b, true
		}
		return upperBound(t.Args[0])
	}
	if t.W < 16 && t.W > 0 {
		return mask(t.W), true
	}
	return 0, false
}

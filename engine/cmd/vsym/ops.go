package main

import (
	"fmt"
	"go/token"
	"go/types"

	"golang.org/x/tools/go/ssa"
)

func resize(t *Term, w int, signed bool) *Term {
	if t.W == w {
		return t
	}
	if t.W > w {
		return Extract(t, w-1, 0)
	}
	if signed {
		return SExt(t, w)
	}
	return ZExt(t, w)
}

// toIdx converts an integer term of Go type t to a 64-bit index term (sign-extended if signed).
func toIdx(v *Term, t types.Type) *Term {
	_, signed, _ := intWidth(t)
	return resize(v, 64, signed)
}

func (ex *Exec) binop(op token.Token, x, y Value, xt, yt types.Type) Value {
	switch a := x.(type) {
	case *Term:
		b, ok := y.(*Term)
		if !ok {
			panic(unsupported(fmt.Sprintf("binop %s on term and %T", op, y)))
		}
		if a.W == 0 {
			switch op {
			case token.EQL:
				return Eq(a, b)
			case token.NEQ:
				return Not(Eq(a, b))
			case token.AND, token.LAND:
				return AndB(a, b)
			case token.OR, token.LOR:
				return OrB(a, b)
			case token.XOR:
				return Not(Eq(a, b))
			}
			panic(unsupported("bool binop " + op.String()))
		}
		_, signed, _ := intWidth(xt)
		switch op {
		case token.ADD:
			return Add(a, b)
		case token.SUB:
			return Sub(a, b)
		case token.MUL:
			return Mul(a, b)
		case token.QUO:
			ex.oblige(Not(Eq(b, BV(b.W, 0))), "panic:div0", "integer divide by zero")
			if signed {
				return SDiv(a, b)
			}
			return UDiv(a, b)
		case token.REM:
			ex.oblige(Not(Eq(b, BV(b.W, 0))), "panic:div0", "integer divide by zero")
			if signed {
				return SRem(a, b)
			}
			return URem(a, b)
		case token.AND:
			return And(a, b)
		case token.OR:
			return Or(a, b)
		case token.XOR:
			return Xor(a, b)
		case token.AND_NOT:
			return And(a, BvNot(b))
		case token.SHL, token.SHR:
			_, ysigned, _ := intWidth(yt)
			if ysigned {
				ex.oblige(Sge(b, BV(b.W, 0)), "panic:shift", "negative shift amount")
			}
			var big *Term
			var amt *Term
			if b.W > a.W {
				big = Uge(b, BV(b.W, uint64(a.W)))
				amt = Extract(b, a.W-1, 0)
			} else {
				big = TFalse
				amt = ZExt(b, a.W)
			}
			if op == token.SHL {
				return Ite(big, BV(a.W, 0), Shl(a, amt))
			}
			if signed {
				return Ite(big, AShr(a, BV(a.W, uint64(a.W-1))), AShr(a, amt))
			}
			return Ite(big, BV(a.W, 0), LShr(a, amt))
		case token.EQL:
			return Eq(a, b)
		case token.NEQ:
			return Not(Eq(a, b))
		case token.LSS:
			if signed {
				return Slt(a, b)
			}
			return Ult(a, b)
		case token.LEQ:
			if signed {
				return Sle(a, b)
			}
			return Ule(a, b)
		case token.GTR:
			if signed {
				return Sgt(a, b)
			}
			return Ugt(a, b)
		case token.GEQ:
			if signed {
				return Sge(a, b)
			}
			return Uge(a, b)
		}
		panic(unsupported("int binop " + op.String()))
	case *SliceV:
		b, ok := y.(*SliceV)
		if !ok {
			panic(unsupported("binop slice/other"))
		}
		if a.Str || b.Str {
			switch op {
			case token.ADD:
				return ex.concatStrings(a, b)
			case token.EQL:
				return ex.stringEq(a, b)
			case token.NEQ:
				return Not(ex.stringEq(a, b))
			case token.LSS, token.LEQ, token.GTR, token.GEQ:
				sa, oka := ex.concreteString(a)
				sb, okb := ex.concreteString(b)
				if oka && okb {
					switch op {
					case token.LSS:
						return Bool(sa < sb)
					case token.LEQ:
						return Bool(sa <= sb)
					case token.GTR:
						return Bool(sa > sb)
					default:
						return Bool(sa >= sb)
					}
				}
				// lexicographic order of strings with concrete lengths and symbolic bytes
				la, ok1 := a.Len.ConstVal()
				lb, ok2 := b.Len.ConstVal()
				if !ok1 || !ok2 || la > 1024 || lb > 1024 {
					panic(unsupported("symbolic string ordering"))
				}
				var ba, bb []*Term
				if la > 0 {
					ba = ex.readBytes(a, int(la))
				}
				if lb > 0 {
					bb = ex.readBytes(b, int(lb))
				}
				m := int(min(la, lb))
				lt, eq := Bool(la < lb), Bool(la == lb) // when one is a prefix of the other
				for i := m - 1; i >= 0; i-- {
					lt = OrB(Ult(ba[i], bb[i]), AndB(Eq(ba[i], bb[i]), lt))
					eq = AndB(Eq(ba[i], bb[i]), eq)
				}
				switch op {
				case token.LSS:
					return lt
				case token.LEQ:
					return OrB(lt, eq)
				case token.GTR:
					return Not(OrB(lt, eq))
				default:
					return Not(lt)
				}
			}
		}
	case *Opaque:
		return &Opaque{What: "arith"}
	}
	switch op {
	case token.EQL:
		return ex.equalValues(x, y)
	case token.NEQ:
		return Not(ex.equalValues(x, y))
	}
	if _, ok := y.(*Opaque); ok {
		return &Opaque{What: "arith"}
	}
	panic(unsupported(fmt.Sprintf("binop %s on %T,%T", op, x, y)))
}

func (ex *Exec) equalValues(x, y Value) *Term {
	switch a := x.(type) {
	case *Term:
		return Eq(a, y.(*Term))
	case TupleV:
		b := y.(TupleV)
		cs := make([]*Term, len(a))
		for i := range a {
			cs[i] = ex.equalValues(a[i], b[i])
		}
		return AndB(cs...)
	case *Ptr:
		b, ok := y.(*Ptr)
		if !ok {
			return TFalse
		}
		if isNilPtr(a) || isNilPtr(b) {
			return Bool(isNilPtr(a) && isNilPtr(b))
		}
		if a.Obj != b.Obj || len(a.Path) != len(b.Path) {
			return TFalse
		}
		c := TTrue
		for i := range a.Path {
			pa, pb := a.Path[i], b.Path[i]
			if pa.T == nil && pb.T == nil {
				if pa.I != pb.I {
					return TFalse
				}
				continue
			}
			ta, tb := pa.T, pb.T
			if ta == nil {
				ta = BV(64, uint64(pa.I))
			}
			if tb == nil {
				tb = BV(64, uint64(pb.I))
			}
			c = AndB(c, Eq(ta, tb))
		}
		if a.Off != nil && b.Off != nil {
			c = AndB(c, Eq(a.Off, b.Off))
		}
		return c
	case *SliceV:
		b := y.(*SliceV)
		if a.Str || b.Str {
			return ex.stringEq(a, b)
		}
		// slices are only comparable to nil
		if a.Obj == nil && b.Obj == nil {
			return TTrue
		}
		return TFalse
	case *IfaceV:
		b, ok := y.(*IfaceV)
		if !ok {
			return TFalse
		}
		if a.Typ == nil || b.Typ == nil {
			return Bool(a.Typ == nil && b.Typ == nil)
		}
		if !types.Identical(a.Typ, b.Typ) {
			return TFalse
		}
		return ex.equalValues(a.Val, b.Val)
	case *FuncV:
		b, _ := y.(*FuncV)
		return Bool(a == nil && b == nil)
	case *MapV:
		b, _ := y.(*MapV)
		return Bool(a == b)
	case *ChanV:
		b, _ := y.(*ChanV)
		return Bool(a == b)
	case *Opaque:
		b, _ := y.(*Opaque)
		return Bool(a == b)
	case *ModelObj:
		b, _ := y.(*ModelObj)
		return Bool(a == b)
	}
	panic(unsupported(fmt.Sprintf("equality on %T", x)))
}

func (ex *Exec) stringEq(a, b *SliceV) *Term {
	if a.Obj != nil && a.Obj == b.Obj && a.Off == b.Off && a.Len == b.Len && samePath(a.Path, b.Path) {
		return TTrue
	}
	if a.Obj != nil && b.Obj != nil && a.Obj != b.Obj && (a.Obj.Doc != nil || b.Obj.Doc != nil) {
		// two store documents: the JSON text is canonical (sorted keys), so whole documents are
		// equal as text exactly when they encode the same map
		if a.Obj.Doc == nil || b.Obj.Doc == nil {
			return TFalse
		}
		wholeA := AndB(Eq(a.Off, BV(64, 0)), Eq(a.Len, a.Obj.DocLen))
		wholeB := AndB(Eq(b.Off, BV(64, 0)), Eq(b.Len, b.Obj.DocLen))
		if wholeA != TTrue || wholeB != TTrue {
			// partial documents (after a faulted write) are never equal to a complete one
			return AndB(wholeA, wholeB, docEq(a.Obj.Doc, b.Obj.Doc))
		}
		return docEq(a.Obj.Doc, b.Obj.Doc)
	}
	if la, ok := a.Len.ConstVal(); ok {
		if lb, ok := b.Len.ConstVal(); ok && la != lb {
			return TFalse
		}
	}
	n, ok := a.Len.ConstVal()
	if !ok {
		n, ok = b.Len.ConstVal()
	}
	if !ok {
		// both lengths symbolic: bound by the smaller concrete capacity
		n = 1 << 62
		for _, l := range []*Term{a.Len, b.Len} {
			if ub, ok := upperBound(l); ok && ub < n {
				n = ub
			}
		}
		for _, s := range []*SliceV{a, b} {
			if s.Obj != nil && s.Obj.IsBytes {
				if c, ok := s.Obj.Size.ConstVal(); ok && c < n {
					n = c
				}
			}
		}
		if n > 512 {
			panic(unsupported("equality of two strings of unbounded symbolic length"))
		}
		cs := []*Term{Eq(a.Len, b.Len)}
		for i := uint64(0); i < n; i++ {
			it := BV(64, i)
			cs = append(cs, Implies(Ult(it, a.Len), Eq(ex.readElem(a, it).(*Term), ex.readElem(b, it).(*Term))))
		}
		return AndB(cs...)
	}
	cs := []*Term{Eq(a.Len, b.Len)}
	if n > 4096 {
		panic(unsupported("string equality over > 4096 bytes"))
	}
	for i := uint64(0); i < n; i++ {
		it := BV(64, i)
		cs = append(cs, Eq(ex.readElem(a, it).(*Term), ex.readElem(b, it).(*Term)))
	}
	return AndB(cs...)
}

func (ex *Exec) concatStrings(a, b *SliceV) *SliceV {
	if a.Obj == nil || a.Len == BV(64, 0) {
		return b
	}
	if b.Obj == nil || b.Len == BV(64, 0) {
		return a
	}
	n := Add(a.Len, b.Len)
	top := zeroLayer()
	top = ex.copyInto(top, BV(64, 0), a, a.Len)
	top = ex.copyInto(top, a.Len, b, b.Len)
	o := ex.newBytes(top, n, "concat")
	o.RO = true
	return &SliceV{Obj: o, Off: BV(64, 0), Len: n, Cap: n, Str: true}
}

// copyInto pushes the first n elements of src (a byte slice/string) at dOff of layer top.
func (ex *Exec) copyInto(top *Layer, dOff *Term, src *SliceV, n *Term) *Layer {
	if src.Obj == nil {
		return top
	}
	if src.Obj.IsBytes {
		return top.copyFrom(dOff, src.Obj.Top, src.Off, n)
	}
	// cells source: element-wise with concrete bound
	cn, ok := n.ConstVal()
	bound := cn
	if !ok {
		c, ok2 := src.Cap.ConstVal()
		if !ok2 {
			panic(unsupported("copy from cells slice of symbolic capacity"))
		}
		bound = c
	}
	dc, dok := dOff.ConstVal()
	for j := uint64(0); j < bound; j++ {
		v := ex.readElem(src, BV(64, j)).(*Term)
		var di *Term
		if dok {
			di = BV(64, dc+j)
		} else {
			di = Add(dOff, BV(64, j))
		}
		if !ok {
			v = Ite(Ult(BV(64, j), n), v, top.read(di))
		}
		top = top.store(di, v)
	}
	return top
}

func (ex *Exec) unop(fr *Frame, in *ssa.UnOp) Value {
	x := ex.get(fr, in.X)
	switch in.Op {
	case token.MUL: // load
		p := x.(*Ptr)
		ex.nilCheck(p)
		return ex.load(p, in.Type())
	case token.NOT:
		return Not(x.(*Term))
	case token.SUB:
		if o, ok := x.(*Opaque); ok {
			return o
		}
		return Neg(x.(*Term))
	case token.XOR:
		return BvNot(x.(*Term))
	case token.ARROW:
		return ex.chanRecv(x, in.CommaOk, in.Type())
	}
	panic(unsupported("unop " + in.Op.String()))
}

func (ex *Exec) load(p *Ptr, t types.Type) Value {
	ex.sched.access(p.Obj)
	if p.View != nil && !p.Obj.IsBytes {
		var leaves []Value
		flatten(getAt(p.Obj.Val, p.Path), &leaves)
		return unflatten(ex.zero(t), &leaves)
	}
	if p.Obj.IsBytes {
		if isByteType(t) {
			return p.Obj.Top.read(p.Off)
		}
		if at, ok := t.Underlying().(*types.Array); ok && isByteType(at.Elem()) {
			n := int(at.Len())
			tv := make(TupleV, n)
			for i := range tv {
				tv[i] = p.Obj.Top.read(Add(p.Off, BV(64, uint64(i))))
			}
			return tv
		}
		panic(unsupported(fmt.Sprintf("load of %s from byte memory", t)))
	}
	if v, ok := ex.tryGetAt(p.Obj.Val, p.Path); ok {
		return copyValue(v)
	}
	// the path holds a symbolic index over elements that cannot be merged: fork on that index
	for k, pe := range p.Path {
		if pe.T == nil || pe.T.IsConst() {
			continue
		}
		cells, isT := getAt(p.Obj.Val, p.Path[:k]).(TupleV)
		if !isT || len(cells) > 64 {
			break
		}
		conds := make([]*Term, len(cells))
		for i := range cells {
			conds[i] = Eq(pe.T, BV(64, uint64(i)))
		}
		i := ex.choose(conds)
		np := append(append([]PathElem{}, p.Path[:k]...), PathElem{I: i})
		np = append(np, p.Path[k+1:]...)
		return ex.load(&Ptr{Obj: p.Obj, Path: np, Off: p.Off, View: p.View}, t)
	}
	return copyValue(getAt(p.Obj.Val, p.Path))
}

func (ex *Exec) specWriteCheck(o *Object) {
	if ex.specDepth > 0 && (o == nil || o.ID <= ex.specObjBase) {
		panic(specAbort{})
	}
}

func (ex *Exec) store(p *Ptr, v Value, t types.Type) {
	ex.nilCheck(p)
	ex.specWriteCheck(p.Obj)
	ex.sched.access(p.Obj)
	if p.Obj.RO {
		panic(unsupported("store into string data"))
	}
	if p.View != nil && !p.Obj.IsBytes {
		old := getAt(p.Obj.Val, p.Path)
		var oldLeaves, newLeaves []Value
		flatten(old, &oldLeaves)
		flatten(v, &newLeaves)
		if len(newLeaves) > len(oldLeaves) {
			panic(unsupported("unsafe view store larger than the object"))
		}
		copy(oldLeaves, newLeaves)
		p.Obj.Val = setAt(p.Obj.Val, p.Path, unflatten(old, &oldLeaves), TTrue)
		return
	}
	if p.Obj.IsBytes {
		switch x := v.(type) {
		case *Term:
			p.Obj.Top = p.Obj.Top.store(p.Off, x)
			return
		case TupleV:
			for i, e := range x {
				p.Obj.Top = p.Obj.Top.store(Add(p.Off, BV(64, uint64(i))), e.(*Term))
			}
			return
		}
		panic(unsupported(fmt.Sprintf("store of %T into byte memory", v)))
	}
	p.Obj.Val = setAt(p.Obj.Val, p.Path, copyValue(v), TTrue)
}

func (ex *Exec) convert(v Value, from, to types.Type) Value {
	if fw, fs, ok := intWidth(from); ok {
		_ = fw
		if tw, _, ok := intWidth(to); ok {
			if o, isO := v.(*Opaque); isO {
				return o
			}
			return resize(v.(*Term), tw, fs)
		}
		if isStringType(to) {
			t := v.(*Term)
			if c, ok := t.ConstVal(); ok {
				return ex.stringValue(string(rune(c)))
			}
			panic(unsupported("string(symbolic rune)"))
		}
		if isFloatType(to) {
			return &Opaque{What: "float"}
		}
		if b, ok := to.Underlying().(*types.Basic); ok && b.Kind() == types.UnsafePointer {
			panic(unsupported("uintptr -> unsafe.Pointer"))
		}
	}
	if isFloatType(from) {
		if isFloatType(to) {
			return v
		}
		panic(unsupported("float -> int conversion"))
	}
	fu, tu := from.Underlying(), to.Underlying()
	// string <-> []byte
	if isStringType(from) {
		if st, ok := tu.(*types.Slice); ok && isByteType(st.Elem()) {
			s := v.(*SliceV)
			top := ex.copyInto(zeroLayer(), BV(64, 0), s, s.Len)
			o := ex.newBytes(top, s.Len, "[]byte(str)")
			return &SliceV{Obj: o, Off: BV(64, 0), Len: s.Len, Cap: s.Len}
		}
		if isStringType(to) {
			return v
		}
		if st, ok := tu.(*types.Slice); ok {
			if b, ok := st.Elem().Underlying().(*types.Basic); ok && b.Kind() == types.Int32 {
				panic(unsupported("[]rune(string)"))
			}
		}
	}
	if st, ok := fu.(*types.Slice); ok && isStringType(to) {
		if !isByteType(st.Elem()) {
			panic(unsupported("string([]rune)"))
		}
		s := v.(*SliceV)
		if s.Obj == nil {
			return ex.stringValue("")
		}
		top := ex.copyInto(zeroLayer(), BV(64, 0), s, s.Len)
		o := ex.newBytes(top, s.Len, "string(b)")
		o.RO = true
		return &SliceV{Obj: o, Off: BV(64, 0), Len: s.Len, Cap: s.Len, Str: true}
	}
	// pointer <-> unsafe.Pointer, pointer -> pointer via unsafe
	_, fp := fu.(*types.Pointer)
	_, tp := tu.(*types.Pointer)
	fb, fIsB := fu.(*types.Basic)
	tb, tIsB := tu.(*types.Basic)
	fUnsafe := fIsB && fb.Kind() == types.UnsafePointer
	tUnsafe := tIsB && tb.Kind() == types.UnsafePointer
	if (fp || fUnsafe) && (tp || tUnsafe) {
		p := v.(*Ptr)
		if isNilPtr(p) {
			return p
		}
		if fp && tUnsafe {
			q := *p
			if q.View == nil {
				q.ElemT = fu.(*types.Pointer).Elem()
			}
			return &q
		}
		if fUnsafe && tp {
			q := *p
			et := tu.(*types.Pointer).Elem()
			if q.View != nil {
				q.View = et
			} else if q.ElemT != nil && !types.Identical(q.ElemT, et) {
				q.View = et
			}
			return &q
		}
		return v
	}
	if tUnsafe || fUnsafe {
		panic(unsupported(fmt.Sprintf("unsafe conversion %s -> %s", from, to)))
	}
	// slice -> array (Go 1.20)
	if _, ok := fu.(*types.Slice); ok {
		if at, ok := tu.(*types.Array); ok {
			p := ex.sliceToArrayPtr(v.(*SliceV), at)
			return ex.load(p, to)
		}
	}
	if types.Identical(fu, tu) {
		return v
	}
	panic(unsupported(fmt.Sprintf("convert %s -> %s", from, to)))
}

// ---------------------------------------------------------------- slices

func (ex *Exec) readElem(s *SliceV, i *Term) Value {
	if s.Obj == nil {
		panic(unsupported("read from nil slice"))
	}
	ex.sched.access(s.Obj)
	idx := Add(s.Off, i)
	if s.Obj.IsBytes {
		return s.Obj.Top.read(idx)
	}
	if !idx.IsConst() {
		// elements that cannot be merged into one ite value (strings, slices, interfaces of different
		// types): fork on the index instead
		if v, ok := ex.tryGetAt(s.Obj.Val, pathAppend(s.Path, PathElem{T: idx})); ok {
			return copyValue(v)
		}
		cells, isT := getAt(s.Obj.Val, s.Path).(TupleV)
		if !isT || len(cells) > 64 {
			panic(unsupported("symbolic index into non-scalar elements"))
		}
		conds := make([]*Term, len(cells))
		for k := range cells {
			conds[k] = Eq(idx, BV(64, uint64(k)))
		}
		k := ex.choose(conds)
		return copyValue(cells[k])
	}
	return copyValue(getAt(s.Obj.Val, pathAppend(s.Path, PathElem{T: idx})))
}

// tryGetAt is getAt that reports failure instead of raising "unsupported" (merging non-scalars).
func (ex *Exec) tryGetAt(v Value, path []PathElem) (out Value, ok bool) {
	defer func() {
		if r := recover(); r != nil {
			if _, isU := r.(unsupportedErr); isU {
				out, ok = nil, false
				return
			}
			panic(r)
		}
	}()
	return getAt(v, path), true
}

func (ex *Exec) writeElem(s *SliceV, i *Term, v Value) {
	ex.specWriteCheck(s.Obj)
	ex.sched.access(s.Obj)
	idx := Add(s.Off, i)
	if s.Obj.RO {
		panic(unsupported("write into string data"))
	}
	if s.Obj.IsBytes {
		s.Obj.Top = s.Obj.Top.store(idx, v.(*Term))
		return
	}
	s.Obj.Val = setAt(s.Obj.Val, pathAppend(s.Path, PathElem{T: idx}), copyValue(v), TTrue)
}

func (ex *Exec) index(x Value, idx *Term, xt, it types.Type) Value {
	i := toIdx(idx, it)
	switch a := x.(type) {
	case TupleV: // array value
		ex.oblige(Ult(i, BV(64, uint64(len(a)))), "panic:index", "index out of range")
		return copyValue(getAt(a, []PathElem{{T: i}}))
	case *SliceV:
		ex.oblige(Ult(i, a.Len), "panic:index", "index out of range")
		return ex.readElem(a, i)
	}
	panic(unsupported(fmt.Sprintf("index on %T", x)))
}

func (ex *Exec) indexAddr(x Value, idx *Term, xt, it types.Type) Value {
	i := toIdx(idx, it)
	switch a := x.(type) {
	case *SliceV:
		ex.oblige(Ult(i, a.Len), "panic:index", "index out of range")
		if a.Obj.IsBytes {
			return &Ptr{Obj: a.Obj, Off: Add(a.Off, i)}
		}
		return &Ptr{Obj: a.Obj, Path: pathAppend(a.Path, PathElem{T: Add(a.Off, i)})}
	case *Ptr: // pointer to array
		ex.nilCheck(a)
		at := xt.Underlying().(*types.Pointer).Elem().Underlying().(*types.Array)
		ex.oblige(Ult(i, BV(64, uint64(at.Len()))), "panic:index", "index out of range")
		if a.Obj.IsBytes {
			return &Ptr{Obj: a.Obj, Off: Add(a.Off, i)}
		}
		return &Ptr{Obj: a.Obj, Path: pathAppend(a.Path, PathElem{T: i})}
	}
	panic(unsupported(fmt.Sprintf("indexaddr on %T", x)))
}

func (ex *Exec) makeSlice(t types.Type, ln, cp *Term, lt types.Type) Value {
	st := t.Underlying().(*types.Slice)
	ln, cp = toIdx(ln, lt), toIdx(cp, lt)
	ex.oblige(AndB(Sge(ln, BV(64, 0)), Sle(ln, cp), Ult(cp, BV(64, 1<<40))), "panic:makeslice", "makeslice: len out of range")
	if isByteType(st.Elem()) {
		o := ex.newBytes(zeroLayer(), cp, "make")
		return &SliceV{Obj: o, Off: BV(64, 0), Len: ln, Cap: cp}
	}
	c, ok := cp.ConstVal()
	if !ok {
		panic(unsupported(fmt.Sprintf("make(%s) with symbolic capacity", t)))
	}
	if c > 1<<20 {
		panic(unsupported("make: huge cells slice"))
	}
	arr := make(TupleV, c)
	for i := range arr {
		arr[i] = ex.zero(st.Elem())
	}
	o := ex.newCells(types.NewArray(st.Elem(), int64(c)), arr, "make")
	return &SliceV{Obj: o, Off: BV(64, 0), Len: ln, Cap: cp}
}

func (ex *Exec) sliceOp(fr *Frame, in *ssa.Slice) Value {
	x := ex.get(fr, in.X)
	opt := func(v ssa.Value) *Term {
		if v == nil {
			return nil
		}
		return toIdx(ex.get(fr, v).(*Term), v.Type())
	}
	lo, hi, mx := opt(in.Low), opt(in.High), opt(in.Max)
	if lo == nil {
		lo = BV(64, 0)
	}
	var base *SliceV
	switch a := x.(type) {
	case *SliceV:
		base = a
	case *Ptr: // *array
		ex.nilCheck(a)
		at := in.X.Type().Underlying().(*types.Pointer).Elem().Underlying().(*types.Array)
		n := BV(64, uint64(at.Len()))
		if a.Obj.IsBytes {
			base = &SliceV{Obj: a.Obj, Off: a.Off, Len: n, Cap: n}
		} else {
			base = &SliceV{Obj: a.Obj, Path: a.Path, Off: BV(64, 0), Len: n, Cap: n}
		}
	default:
		panic(unsupported(fmt.Sprintf("slice of %T", x)))
	}
	limit := base.Cap
	if base.Str {
		limit = base.Len
	}
	if hi == nil {
		hi = base.Len
	}
	if mx == nil {
		ex.oblige(AndB(Ule(lo, hi), Ule(hi, limit)), "panic:slice", "slice bounds out of range")
		mx = limit
	} else {
		ex.oblige(AndB(Ule(lo, hi), Ule(hi, mx), Ule(mx, limit)), "panic:slice", "slice bounds out of range")
	}
	if base.Obj == nil {
		return &SliceV{Off: BV(64, 0), Len: BV(64, 0), Cap: BV(64, 0), Str: base.Str}
	}
	return &SliceV{Obj: base.Obj, Path: base.Path, Off: Add(base.Off, lo), Len: Sub(hi, lo), Cap: Sub(mx, lo), Str: base.Str}
}

func (ex *Exec) sliceToArrayPtr(s *SliceV, at *types.Array) *Ptr {
	n := BV(64, uint64(at.Len()))
	ex.oblige(Uge(s.Len, n), "panic:slice2arr", "cannot convert slice to array pointer: length too short")
	if s.Obj == nil {
		if at.Len() == 0 {
			return nilPtr
		}
		panic(pathEnd{"violation"})
	}
	if s.Obj.IsBytes {
		return &Ptr{Obj: s.Obj, Off: s.Off}
	}
	// cells: only whole-array views are supported
	if c, ok := s.Off.ConstVal(); ok && c == 0 {
		arr := getAt(s.Obj.Val, s.Path).(TupleV)
		if int64(len(arr)) == at.Len() {
			return &Ptr{Obj: s.Obj, Path: s.Path}
		}
	}
	panic(unsupported("slice-to-array-pointer into the middle of a cells array"))
}

func (ex *Exec) sliceLen(v Value) *Term {
	switch a := v.(type) {
	case *SliceV:
		return a.Len
	case TupleV:
		return BV(64, uint64(len(a)))
	case *MapV:
		if a == nil {
			return BV(64, 0)
		}
		return BV(64, uint64(len(a.Entries)))
	case *ChanV:
		if a == nil {
			return BV(64, 0)
		}
		return BV(64, uint64(len(a.buf)))
	case *Ptr: // *array
		if !isNilPtr(a) && !a.Obj.IsBytes {
			if tv, ok := getAt(a.Obj.Val, a.Path).(TupleV); ok {
				return BV(64, uint64(len(tv)))
			}
		}
		if !isNilPtr(a) && a.Obj.IsBytes {
			if at, ok := a.Obj.Typ.Underlying().(*types.Array); ok {
				return BV(64, uint64(at.Len()))
			}
		}
	}
	panic(unsupported(fmt.Sprintf("len of %T", v)))
}

// copySlices implements the builtin copy.
func (ex *Exec) copySlices(dst, src *SliceV) *Term {
	n := Ite(Ult(src.Len, dst.Len), src.Len, dst.Len)
	if dst.Obj == nil || src.Obj == nil {
		return BV(64, 0)
	}
	if n == BV(64, 0) {
		return n
	}
	ex.specWriteCheck(dst.Obj)
	ex.sched.access(dst.Obj)
	ex.sched.access(src.Obj)
	if dst.Obj.IsBytes {
		dst.Obj.Top = ex.copyInto(dst.Obj.Top, dst.Off, src, n)
		return n
	}
	// cells destination
	cn, ok := n.ConstVal()
	_, offConst := dst.Off.ConstVal()
	if !ok && !offConst || !ok && !dst.Cap.IsConst() {
		// general case: every cell k of the backing array becomes ite(k in [off, off+n), src[k-off], old)
		arr, isArr := getAt(dst.Obj.Val, dst.Path).(TupleV)
		if !isArr {
			panic(unsupported("copy into cells slice without array backing"))
		}
		vals := make([]Value, len(arr))
		for k := range arr {
			kt := BV(64, uint64(k))
			in := inRange(kt, dst.Off, n)
			if in == TFalse {
				continue
			}
			vals[k] = iteValue(in, ex.readElem(src, Sub(kt, dst.Off)), arr[k])
		}
		for k, v := range vals {
			if v != nil {
				arr[k] = v
			}
		}
		return n
	}
	bound := cn
	if !ok {
		c, _ := dst.Cap.ConstVal()
		bound = c
		if sc, ok3 := src.Len.ConstVal(); ok3 && sc < bound {
			bound = sc
		}
	}
	// read everything first (memmove semantics)
	vals := make([]Value, bound)
	for j := uint64(0); j < bound; j++ {
		vals[j] = ex.readElem(src, BV(64, j))
	}
	for j := uint64(0); j < bound; j++ {
		jt := BV(64, j)
		v := vals[j]
		if !ok {
			v = iteValue(Ult(jt, n), v, ex.readElem(dst, jt))
		}
		ex.writeElem(dst, jt, v)
	}
	return n
}

func (ex *Exec) appendSlices(s, t *SliceV, st types.Type) Value {
	if t.Obj == nil || t.Len == BV(64, 0) {
		return s
	}
	newLen := Add(s.Len, t.Len)
	elemIsByte := false
	if sl, ok := st.Underlying().(*types.Slice); ok {
		elemIsByte = isByteType(sl.Elem())
	}
	fits := Ule(newLen, s.Cap)
	if s.Obj != nil && ex.branch(fits) {
		dst := &SliceV{Obj: s.Obj, Path: s.Path, Off: Add(s.Off, s.Len), Len: t.Len, Cap: t.Len}
		ex.copySlices(dst, t)
		return &SliceV{Obj: s.Obj, Path: s.Path, Off: s.Off, Len: newLen, Cap: s.Cap}
	}
	if elemIsByte {
		// model: growth allocates exactly the needed capacity (Go may allocate more)
		ncap := newLen
		top := zeroLayer()
		if s.Obj != nil {
			top = ex.copyInto(top, BV(64, 0), s, s.Len)
		}
		top = ex.copyInto(top, s.Len, t, t.Len)
		o := ex.newBytes(top, ncap, "append")
		return &SliceV{Obj: o, Off: BV(64, 0), Len: newLen, Cap: ncap}
	}
	nl, ok := newLen.ConstVal()
	if !ok {
		panic(unsupported("append growing a cells slice to symbolic length"))
	}
	oc, _ := s.Cap.ConstVal()
	nc := max(nl, 2*oc)
	if nc > 1<<20 {
		panic(unsupported("append: huge cells slice"))
	}
	elemT := st.Underlying().(*types.Slice).Elem()
	arr := make(TupleV, nc)
	sl, _ := s.Len.ConstVal()
	for i := uint64(0); i < nc; i++ {
		switch {
		case i < sl:
			arr[i] = ex.readElem(s, BV(64, i))
		case i < nl:
			arr[i] = ex.readElem(t, BV(64, i-sl))
		default:
			arr[i] = ex.zero(elemT)
		}
	}
	o := ex.newCells(types.NewArray(elemT, int64(nc)), arr, "append")
	return &SliceV{Obj: o, Off: BV(64, 0), Len: newLen, Cap: BV(64, nc)}
}

// ---------------------------------------------------------------- maps

func (ex *Exec) mapFind(m *MapV, k Value) *MapEntry {
	if m == nil || len(m.Entries) == 0 {
		return nil
	}
	conds := make([]*Term, 0, len(m.Entries)+1)
	var nots []*Term
	for _, e := range m.Entries {
		c := ex.equalValues(e.K, k)
		if c == TTrue {
			return e
		}
		conds = append(conds, c)
		nots = append(nots, Not(c))
	}
	conds = append(conds, AndB(nots...))
	i := ex.choose(conds)
	if i == len(m.Entries) {
		return nil
	}
	return m.Entries[i]
}

func (ex *Exec) mapUpdate(mv, k, v Value) {
	m, _ := mv.(*MapV)
	if m == nil {
		ex.oblige(TFalse, "panic:nilmap", "assignment to entry in nil map")
		panic(pathEnd{"violation"})
	}
	if e := ex.mapFind(m, k); e != nil {
		e.V = copyValue(v)
		return
	}
	m.Entries = append(m.Entries, &MapEntry{K: copyValue(k), V: copyValue(v)})
}

func (ex *Exec) lookup(fr *Frame, in *ssa.Lookup) Value {
	x := ex.get(fr, in.X)
	if s, ok := x.(*SliceV); ok { // string index
		i := toIdx(ex.get(fr, in.Index).(*Term), in.Index.Type())
		ex.oblige(Ult(i, s.Len), "panic:index", "index out of range")
		return ex.readElem(s, i)
	}
	m, _ := x.(*MapV)
	k := ex.get(fr, in.Index)
	var vt types.Type
	if in.CommaOk {
		vt = in.Type().(*types.Tuple).At(0).Type()
	} else {
		vt = in.Type()
	}
	e := ex.mapFind(m, k)
	var v Value
	if e != nil {
		v = copyValue(e.V)
	} else {
		v = ex.zero(vt)
	}
	if in.CommaOk {
		return TupleV{v, Bool(e != nil)}
	}
	return v
}

func (ex *Exec) mapDelete(m *MapV, k Value) {
	if m == nil {
		return
	}
	if ex.specDepth > 0 {
		panic(specAbort{})
	}
	e := ex.mapFind(m, k)
	if e == nil {
		return
	}
	for i, x := range m.Entries {
		if x == e {
			m.Entries = append(m.Entries[:i:i], m.Entries[i+1:]...)
			return
		}
	}
}

type rangeIter struct {
	m    *MapV
	keys []*MapEntry
	s    *SliceV
	pos  int
}

func (ex *Exec) rangeStart(x Value, t types.Type) Value {
	switch a := x.(type) {
	case *MapV:
		it := &rangeIter{m: a}
		if a != nil {
			it.keys = append(it.keys, a.Entries...)
		}
		return it
	case *SliceV:
		return &rangeIter{s: a}
	}
	panic(unsupported(fmt.Sprintf("range over %T", x)))
}

func (ex *Exec) rangeNext(it *rangeIter, in *ssa.Next) Value {
	tt := in.Type().(*types.Tuple)
	if in.IsString {
		n, ok := it.s.Len.ConstVal()
		if !ok {
			panic(unsupported("range over string of symbolic length"))
		}
		if uint64(it.pos) >= n {
			return TupleV{TFalse, BV(64, 0), BV(32, 0)}
		}
		b := ex.readElem(it.s, BV(64, uint64(it.pos))).(*Term)
		if c, ok := b.ConstVal(); !ok || c >= 0x80 {
			if !ok {
				// assume ASCII for symbolic bytes is not sound; refuse
				panic(unsupported("range over string with symbolic/non-ASCII bytes"))
			}
			panic(unsupported("range over non-ASCII string"))
		}
		r := TupleV{TTrue, BV(64, uint64(it.pos)), ZExt(b, 32)}
		it.pos++
		return r
	}
	for it.pos < len(it.keys) {
		e := it.keys[it.pos]
		it.pos++
		// skip entries deleted during iteration
		live := false
		for _, x := range it.m.Entries {
			if x == e {
				live = true
				break
			}
		}
		if !live {
			continue
		}
		return TupleV{TTrue, copyValue(e.K), copyValue(e.V)}
	}
	return TupleV{TFalse, ex.zero(tt.At(1).Type()), ex.zero(tt.At(2).Type())}
}

// ---------------------------------------------------------------- type assertions

func (ex *Exec) implements(dyn types.Type, iface *types.Interface) bool {
	return types.Implements(dyn, iface)
}

func (ex *Exec) typeAssert(in *ssa.TypeAssert, x Value) Value {
	iv, ok := x.(*IfaceV)
	if !ok {
		panic(unsupported(fmt.Sprintf("type assert on %T", x)))
	}
	var okk bool
	var res Value
	if it, isI := in.AssertedType.Underlying().(*types.Interface); isI {
		okk = iv.Typ != nil && ex.implements(iv.Typ, it)
		if okk {
			res = iv
		} else {
			res = &IfaceV{}
		}
	} else {
		okk = iv.Typ != nil && types.Identical(iv.Typ, in.AssertedType)
		if okk {
			res = iv.Val
		} else {
			res = ex.zero(in.AssertedType)
		}
	}
	if in.CommaOk {
		return TupleV{res, Bool(okk)}
	}
	if !okk {
		ex.oblige(TFalse, "panic:typeassert", fmt.Sprintf("interface conversion: %v is not %s", iv.Typ, in.AssertedType))
		panic(pathEnd{"violation"})
	}
	return res
}

// ---------------------------------------------------------------- builtins

func (ex *Exec) callBuiltin(b *ssa.Builtin, args []Value, site ssa.Instruction) Value {
	switch b.Name() {
	case "len":
		return ex.sliceLen(args[0])
	case "cap":
		switch a := args[0].(type) {
		case *SliceV:
			return a.Cap
		case *ChanV:
			if a == nil {
				return BV(64, 0)
			}
			return BV(64, uint64(a.size))
		}
		return ex.sliceLen(args[0])
	case "copy":
		return ex.copySlices(args[0].(*SliceV), args[1].(*SliceV))
	case "append":
		st := b.Type().(*types.Signature).Params().At(0).Type()
		return ex.appendSlices(args[0].(*SliceV), args[1].(*SliceV), st)
	case "min", "max":
		acc := args[0].(*Term)
		_, signed, _ := intWidth(b.Type().(*types.Signature).Params().At(0).Type())
		for _, a := range args[1:] {
			t := a.(*Term)
			var lt *Term
			if signed {
				lt = Slt(t, acc)
			} else {
				lt = Ult(t, acc)
			}
			if b.Name() == "min" {
				acc = Ite(lt, t, acc)
			} else {
				acc = Ite(lt, acc, t)
			}
		}
		return acc
	case "delete":
		m, _ := args[0].(*MapV)
		ex.mapDelete(m, args[1])
		return nil
	case "clear":
		switch a := args[0].(type) {
		case *MapV:
			if a != nil {
				a.Entries = nil
			}
		case *SliceV:
			if a.Obj == nil {
				return nil
			}
			if a.Obj.IsBytes {
				a.Obj.Top = a.Obj.Top.fill(a.Off, a.Len, BV(8, 0))
				return nil
			}
			n, ok := a.Len.ConstVal()
			if !ok {
				panic(unsupported("clear of cells slice with symbolic length"))
			}
			et := b.Type().(*types.Signature).Params().At(0).Type().Underlying().(*types.Slice).Elem()
			for i := uint64(0); i < n; i++ {
				ex.writeElem(a, BV(64, i), ex.zero(et))
			}
		}
		return nil
	case "close":
		ex.chanClose(args[0])
		return nil
	case "panic":
		ex.oblige(TFalse, "panic:explicit", ex.describe(args[0]))
		panic(pathEnd{"violation"})
	case "print", "println":
		return nil
	case "ssa:wrapnilchk":
		if p, ok := args[0].(*Ptr); ok {
			ex.nilCheck(p)
		}
		return args[0]
	case "String": // unsafe.String(ptr, len)
		p := args[0].(*Ptr)
		n := toIdx(args[1].(*Term), b.Type().(*types.Signature).Params().At(1).Type())
		if isNilPtr(p) {
			return ex.stringValue("")
		}
		if !p.Obj.IsBytes {
			panic(unsupported("unsafe.String over cells"))
		}
		return &SliceV{Obj: p.Obj, Off: p.Off, Len: n, Cap: n, Str: true}
	case "StringData", "SliceData":
		s := args[0].(*SliceV)
		if s.Obj == nil {
			return nilPtr
		}
		if !s.Obj.IsBytes {
			return &Ptr{Obj: s.Obj, Path: pathAppend(s.Path, PathElem{T: s.Off})}
		}
		return &Ptr{Obj: s.Obj, Off: s.Off}
	case "Slice": // unsafe.Slice(ptr, len)
		p := args[0].(*Ptr)
		n := toIdx(args[1].(*Term), b.Type().(*types.Signature).Params().At(1).Type())
		if isNilPtr(p) {
			return &SliceV{Off: BV(64, 0), Len: BV(64, 0), Cap: BV(64, 0)}
		}
		if !p.Obj.IsBytes {
			panic(unsupported("unsafe.Slice over cells"))
		}
		return &SliceV{Obj: p.Obj, Off: p.Off, Len: n, Cap: n}
	}
	panic(unsupported("builtin " + b.Name()))
}

func (ex *Exec) freshVar(prefix string, w int) *Term {
	ex.fresh[prefix]++
	return Var(fmt.Sprintf("%s!%d", prefix, ex.fresh[prefix]), w)
}

package main

// Ideal-cipher models (DESIGN.md 4.4).  The harness calls the real constructors of the repo; the
// models replace the library leaves: blake3 (uninterpreted, injective on the terms of the path),
// AES block (uninterpreted permutation), AES-GCM (seal table: a ciphertext opens iff it was sealed
// under the same key and nonce; ciphertext and tag bytes are fresh).

import (
	"fmt"
	"go/token"
	"go/types"

	"golang.org/x/tools/go/ssa"
)

type ModelObj struct {
	Kind string
	Key  []*Term // key bytes
}

var (
	synthBlockT = types.NewPointer(types.NewNamed(types.NewTypeName(token.NoPos, nil, "vsymAESBlock", nil), types.NewStruct(nil, nil), nil))
	synthAEADT  = types.NewPointer(types.NewNamed(types.NewTypeName(token.NoPos, nil, "vsymAESGCM", nil), types.NewStruct(nil, nil), nil))
)

type ufApp struct {
	in  []*Term
	out []*Term
}

type sealEntry struct {
	id    int
	key   []*Term
	nonce []*Term
	n     *Term
	pt    *Layer // snapshot
	ptOff *Term
	ct    *Layer // fresh layer holding the ciphertext at offset 0
	tag   []*Term
}

func (ex *Exec) readBytes(s *SliceV, n int) []*Term {
	out := make([]*Term, n)
	for i := range out {
		out[i] = ex.readElem(s, BV(64, uint64(i))).(*Term)
	}
	return out
}

func (ex *Exec) writeBytes(s *SliceV, bs []*Term) {
	for i, b := range bs {
		ex.writeElem(s, BV(64, uint64(i)), b)
	}
}

// packWords packs bytes big-endian into 64-bit words (the last word is zero padded).
func packWords(bs []*Term) []*Term {
	var out []*Term
	for i := 0; i < len(bs); i += 8 {
		var w *Term
		for j := 0; j < 8; j++ {
			var b *Term
			if i+j < len(bs) {
				b = bs[i+j]
			} else {
				b = BV(8, 0)
			}
			if w == nil {
				w = b
			} else {
				w = Concat(w, b)
			}
		}
		out = append(out, w)
	}
	return out
}

func unpackWords(ws []*Term, n int) []*Term {
	out := make([]*Term, 0, n)
	for _, w := range ws {
		for j := 0; j < 8 && len(out) < n; j++ {
			out = append(out, Extract(w, 63-8*j, 56-8*j))
		}
	}
	return out
}

func eqAll(a, b []*Term) *Term {
	cs := make([]*Term, len(a))
	for i := range a {
		cs[i] = Eq(a[i], b[i])
	}
	return AndB(cs...)
}

// ufHash applies an uninterpreted hash family (nOut output words) to in and records the
// application; with injective, collision freedom against earlier applications is assumed.
func (ex *Exec) ufHash(family string, in []*Term, nOut int, injective bool) []*Term {
	out := make([]*Term, nOut)
	for j := range out {
		out[j] = UF(fmt.Sprintf("%s.%d", family, j), 64, in...)
	}
	key := "uf:" + family
	apps, _ := ex.ghost[key].([]ufApp)
	if injective {
		for _, a := range apps {
			if len(a.in) != len(in) {
				continue
			}
			same := eqAll(a.in, in)
			if same == TTrue {
				continue
			}
			ex.assume(Implies(eqAll(a.out, out), same))
		}
	}
	ex.ghost[key] = append(apps, ufApp{in: in, out: out})
	return out
}

func (ex *Exec) modelKey(v Value) []*Term {
	iv, ok := v.(*IfaceV)
	if ok {
		v = iv.Val
	}
	m, ok := v.(*ModelObj)
	if !ok {
		panic(unsupported(fmt.Sprintf("crypto model: receiver %T", v)))
	}
	return m.Key
}

func (ex *Exec) aesBlockOp(dec bool, key []*Term, x []*Term) []*Term {
	fam := fmt.Sprintf("aesE%d", len(key)*8)
	other := fmt.Sprintf("aesD%d", len(key)*8)
	if dec {
		fam, other = other, fam
	}
	in := append(packWords(key), packWords(x)...)
	out := make([]*Term, 2)
	for j := range out {
		out[j] = UF(fmt.Sprintf("%s.%d", fam, j), 64, in...)
	}
	nk := len(in) - 2
	// permutation axioms against earlier applications on this path
	mine, _ := ex.ghost["aes:"+fam].([]ufApp)
	theirs, _ := ex.ghost["aes:"+other].([]ufApp)
	for _, a := range mine {
		if len(a.in) != len(in) {
			continue
		}
		// same key: equal outputs imply equal inputs (injective), and it is a function anyway
		ex.assume(Implies(AndB(eqAll(a.in[:nk], in[:nk]), eqAll(a.out, out)), eqAll(a.in[nk:], in[nk:])))
	}
	for _, a := range theirs {
		if len(a.in) != len(in) {
			continue
		}
		// inverse: other(k, y) = x  <=>  this(k, x) = y
		ex.assume(Implies(AndB(eqAll(a.in[:nk], in[:nk]), eqAll(a.out, in[nk:])), eqAll(out, a.in[nk:])))
		ex.assume(Implies(AndB(eqAll(a.in[:nk], in[:nk]), eqAll(out, a.in[nk:])), eqAll(a.out, in[nk:])))
	}
	ex.ghost["aes:"+fam] = append(mine, ufApp{in: in, out: out})
	return unpackWords(out, 16)
}

func sameObjOverlap(a, b *SliceV, n *Term) *Term {
	// inexact overlap of a[:n] and b[:n]: same object, n>0, different start, ranges intersect
	if a.Obj == nil || b.Obj == nil || a.Obj != b.Obj || !samePath(a.Path, b.Path) {
		return TFalse
	}
	return AndB(Not(Eq(n, BV(64, 0))), Not(Eq(a.Off, b.Off)), Ult(a.Off, Add(b.Off, n)), Ult(b.Off, Add(a.Off, n)))
}

// sliceForAppend mirrors crypto/cipher's helper: in place iff the capacity suffices.
func (ex *Exec) sliceForAppend(in *SliceV, n *Term) (head, tail *SliceV) {
	total := Add(in.Len, n)
	if in.Obj != nil && ex.branch(Uge(in.Cap, total)) {
		head = &SliceV{Obj: in.Obj, Path: in.Path, Off: in.Off, Len: total, Cap: in.Cap}
	} else {
		o := ex.newBytes(zeroLayer(), total, "aead-out")
		if in.Obj != nil {
			o.Top = ex.copyInto(o.Top, BV(64, 0), in, in.Len)
		}
		head = &SliceV{Obj: o, Off: BV(64, 0), Len: total, Cap: total}
	}
	tail = &SliceV{Obj: head.Obj, Path: head.Path, Off: Add(head.Off, in.Len), Len: n, Cap: Sub(head.Cap, in.Len)}
	return
}

func (ex *Exec) gcmSeal(key []*Term, dst, nonce, pt *SliceV) Value {
	ex.oblige(Eq(nonce.Len, BV(64, 12)), "panic:explicit", "crypto/cipher: incorrect nonce length given to GCM")
	if !dst.IsBytesOrNil() || !pt.IsBytesOrNil() {
		panic(unsupported("gcm Seal over non-byte memory"))
	}
	n := pt.Len
	head, out := ex.sliceForAppend(dst, Add(n, BV(64, 16)))
	ex.oblige(Not(sameObjOverlap(out, pt, n)), "panic:explicit", "crypto/cipher: invalid buffer overlap of output and input")
	id := len(ex.sealTable()) + 1
	ct := freshLayer(fmt.Sprintf("ct!%d", id))
	tagL := freshLayer(fmt.Sprintf("tag!%d", id))
	e := &sealEntry{id: id, key: key, nonce: ex.readBytes(nonce, 12), n: n, ct: ct}
	if pt.Obj != nil {
		e.pt = pt.Obj.Top.snapshot()
		e.ptOff = pt.Off
	} else {
		e.pt = zeroLayer()
		e.ptOff = BV(64, 0)
	}
	for j := 0; j < 16; j++ {
		e.tag = append(e.tag, tagL.read(BV(64, uint64(j))))
	}
	// ideal MAC: tags of different seal operations never coincide
	for _, prev := range ex.sealTable() {
		ex.assume(Not(eqAll(prev.tag, e.tag)))
	}
	if head.Obj.RO {
		panic(unsupported("Seal into read-only memory"))
	}
	head.Obj.Top = head.Obj.Top.copyFrom(out.Off, ct, BV(64, 0), n)
	head.Obj.Top = head.Obj.Top.copyFrom(Add(out.Off, n), tagL, BV(64, 0), BV(64, 16))
	ex.ghost["seals"] = append(ex.sealTable(), e)
	return head
}

func (s *SliceV) IsBytesOrNil() bool { return s.Obj == nil || s.Obj.IsBytes }

func (ex *Exec) sealTable() []*sealEntry {
	t, _ := ex.ghost["seals"].([]*sealEntry)
	return t
}

func (ex *Exec) witnesses() []*Term {
	w, _ := ex.ghost["witness"].([]*Term)
	return w
}

func (ex *Exec) gcmOpen(key []*Term, dst, nonce, ct *SliceV) Value {
	ex.oblige(Eq(nonce.Len, BV(64, 12)), "panic:explicit", "crypto/cipher: incorrect nonce length given to GCM")
	errOpen := func() Value {
		return TupleV{&SliceV{Off: BV(64, 0), Len: BV(64, 0), Cap: BV(64, 0)}, ex.cachedError("cipher: message authentication failed")}
	}
	if ex.branch(Ult(ct.Len, BV(64, 16))) {
		return errOpen()
	}
	if !dst.IsBytesOrNil() || !ct.IsBytesOrNil() {
		panic(unsupported("gcm Open over non-byte memory"))
	}
	n := Sub(ct.Len, BV(64, 16))
	nb := ex.readBytes(nonce, 12)
	// read what is needed from the ciphertext before the output may overwrite it
	ctSnap := ct.Obj.Top.snapshot()
	rd := func(i *Term) *Term { return ctSnap.read(Add(ct.Off, i)) }
	var tag []*Term
	for j := 0; j < 16; j++ {
		tag = append(tag, rd(Add(n, BV(64, uint64(j)))))
	}
	table := ex.sealTable()
	conds := make([]*Term, 0, len(table)+2)
	var exactNots []*Term
	for _, e := range table {
		if len(e.key) != len(key) {
			conds = append(conds, TFalse)
			continue
		}
		base := AndB(eqAll(e.key, key), eqAll(e.nonce, nb), Eq(e.n, n), eqAll(e.tag, tag))
		succ := base
		for _, w := range ex.witnesses() {
			succ = AndB(succ, Implies(Ult(w, n), Eq(rd(w), e.ct.read(w))))
		}
		conds = append(conds, succ)
		if base == TFalse {
			continue
		}
		sk := ex.freshVar(fmt.Sprintf("openDiff%d", e.id), 64)
		differs := AndB(Ult(sk, n), Not(Eq(rd(sk), e.ct.read(sk))))
		exactNots = append(exactNots, OrB(Not(base), differs))
	}
	failIdx := len(conds)
	conds = append(conds, AndB(exactNots...))
	forgeIdx := -1
	if ex.ghost["attackerHasKey"] != nil {
		forgeIdx = len(conds)
		conds = append(conds, TTrue)
	}
	k := ex.chooseAny(conds)
	head, out := ex.sliceForAppend(dst, n)
	ex.oblige(Not(sameObjOverlap(out, ct, n)), "panic:explicit", "crypto/cipher: invalid buffer overlap of output and input")
	switch {
	case k == failIdx:
		if head.Obj != nil && !head.Obj.RO {
			head.Obj.Top = head.Obj.Top.copyFrom(out.Off, freshLayer(ex.freshName("openGarbage")), BV(64, 0), n)
		}
		return errOpen()
	case k == forgeIdx:
		head.Obj.Top = head.Obj.Top.copyFrom(out.Off, freshLayer(ex.freshName("forgedPlaintext")), BV(64, 0), n)
		return TupleV{head, &IfaceV{}}
	}
	e := table[k]
	head.Obj.Top = head.Obj.Top.copyFrom(out.Off, e.pt, e.ptOff, n)
	ex.ghost["lastOpened"] = e.id
	opened, _ := ex.ghost["opened"].([]int)
	ex.ghost["opened"] = append(opened, e.id)
	return TupleV{head, &IfaceV{}}
}

// chooseAny is choose for alternatives that need not be mutually exclusive.
func (ex *Exec) chooseAny(conds []*Term) int {
	var trues []int
	allConst := true
	for i, c := range conds {
		if c == TTrue {
			trues = append(trues, i)
		} else if c != TFalse {
			allConst = false
		}
	}
	if allConst && len(trues) > 1 {
		return trues[ex.chooseN(len(trues))]
	}
	return ex.choose(conds)
}

func (ex *Exec) cachedError(msg string) *IfaceV {
	k := "err:" + msg
	if e, ok := ex.ghost[k].(*IfaceV); ok {
		return e
	}
	e := ex.newError(msg)
	ex.ghost[k] = e
	return e
}

func nativeMethod(t types.Type, name string) (*FuncV, bool) {
	switch t {
	case synthBlockT:
		switch name {
		case "BlockSize":
			return &FuncV{Name: "aes.BlockSize", Native: func(ex *Exec, a []Value) Value { return BV(64, 16) }}, true
		case "Encrypt", "Decrypt":
			dec := name == "Decrypt"
			return &FuncV{Name: "aes." + name, Native: func(ex *Exec, a []Value) Value {
				key := ex.modelKey(a[0])
				dst, src := a[1].(*SliceV), a[2].(*SliceV)
				ex.oblige(Uge(src.Len, BV(64, 16)), "panic:explicit", "crypto/aes: input not full block")
				ex.oblige(Uge(dst.Len, BV(64, 16)), "panic:explicit", "crypto/aes: output not full block")
				ex.oblige(Not(sameObjOverlap(dst, src, BV(64, 16))), "panic:explicit", "crypto/aes: invalid buffer overlap")
				ex.StubsUsed["model:aes."+name]++
				out := ex.aesBlockOp(dec, key, ex.readBytes(src, 16))
				ex.writeBytes(dst, out)
				return nil
			}}, true
		}
	case synthAEADT:
		switch name {
		case "NonceSize":
			return &FuncV{Name: "gcm.NonceSize", Native: func(ex *Exec, a []Value) Value { return BV(64, 12) }}, true
		case "Overhead":
			return &FuncV{Name: "gcm.Overhead", Native: func(ex *Exec, a []Value) Value { return BV(64, 16) }}, true
		case "Seal":
			return &FuncV{Name: "gcm.Seal", Native: func(ex *Exec, a []Value) Value {
				ex.StubsUsed["model:gcm.Seal"]++
				return ex.gcmSeal(ex.modelKey(a[0]), a[1].(*SliceV), a[2].(*SliceV), a[3].(*SliceV))
			}}, true
		case "Open":
			return &FuncV{Name: "gcm.Open", Native: func(ex *Exec, a []Value) Value {
				ex.StubsUsed["model:gcm.Open"]++
				return ex.gcmOpen(ex.modelKey(a[0]), a[1].(*SliceV), a[2].(*SliceV), a[3].(*SliceV))
			}}, true
		}
	}
	return nil, false
}

func init() {
	regStub("lukechampine.com/blake3.DeriveKey", func(ex *Exec, fn *ssa.Function, args []Value) Value {
		out, ctx, src := args[0].(*SliceV), ex.argString(args[1]), args[2].(*SliceV)
		on, ok1 := out.Len.ConstVal()
		sn, ok2 := src.Len.ConstVal()
		if !ok1 || !ok2 || on > 64 || sn > 128 {
			panic(unsupported("blake3.DeriveKey with symbolic or large lengths"))
		}
		in := packWords(ex.readBytes(src, int(sn)))
		fam := fmt.Sprintf("b3dk[%s,%d,%d]", ctx, sn, on)
		ws := ex.ufHash(fam, in, int((on+7)/8), true)
		ex.writeBytes(out, unpackWords(ws, int(on)))
		return nil
	})
	regStub("lukechampine.com/blake3.Sum512", func(ex *Exec, fn *ssa.Function, args []Value) Value {
		src := args[0].(*SliceV)
		sn, ok := src.Len.ConstVal()
		if !ok || sn > 128 {
			panic(unsupported("blake3.Sum512 with symbolic or large length"))
		}
		in := packWords(ex.readBytes(src, int(sn)))
		// only the first 16 bytes are ever used by the repo; all 64 are modelled, collision freedom
		// is assumed on the first two words (the truncated hash that is compared)
		ws := ex.ufHash(fmt.Sprintf("b3sum[%d]", sn), in, 2, true)
		rest := ex.ufHash(fmt.Sprintf("b3sumTail[%d]", sn), in, 6, false)
		bs := unpackWords(append(ws, rest...), 64)
		tv := make(TupleV, 64)
		for i := range tv {
			tv[i] = bs[i]
		}
		return tv
	})
	regStub("crypto/aes.NewCipher", func(ex *Exec, fn *ssa.Function, args []Value) Value {
		key := args[0].(*SliceV)
		kn, ok := key.Len.ConstVal()
		if !ok {
			panic(unsupported("aes.NewCipher with symbolic key length"))
		}
		if kn != 16 && kn != 24 && kn != 32 {
			return TupleV{&IfaceV{}, ex.newError("crypto/aes: invalid key size")}
		}
		return TupleV{&IfaceV{Typ: synthBlockT, Val: &ModelObj{Kind: "aes", Key: ex.readBytes(key, int(kn))}}, &IfaceV{}}
	})
	regStub("crypto/cipher.NewGCM", func(ex *Exec, fn *ssa.Function, args []Value) Value {
		b := args[0].(*IfaceV)
		if b.Typ == nil {
			ex.oblige(TFalse, "panic:nil", "cipher.NewGCM(nil)")
			panic(pathEnd{"violation"})
		}
		return TupleV{&IfaceV{Typ: synthAEADT, Val: &ModelObj{Kind: "gcm", Key: ex.modelKey(b)}}, &IfaceV{}}
	})
	regStub("crypto/subtle.XORBytes", func(ex *Exec, fn *ssa.Function, args []Value) Value {
		dst, x, y := args[0].(*SliceV), args[1].(*SliceV), args[2].(*SliceV)
		n := Ite(Ult(x.Len, y.Len), x.Len, y.Len)
		nc, ok := n.ConstVal()
		if !ok || nc > 64 {
			panic(unsupported("subtle.XORBytes with symbolic length"))
		}
		ex.oblige(Uge(dst.Len, n), "panic:explicit", "subtle.XORBytes: dst too short")
		xs, ys := ex.readBytes(x, int(nc)), ex.readBytes(y, int(nc))
		out := make([]*Term, nc)
		for i := range out {
			out[i] = Xor(xs[i], ys[i])
		}
		ex.writeBytes(dst, out)
		return n
	})
	suffixStubs["vfAttackerHasKey"] = func(ex *Exec, fn *ssa.Function, args []Value) Value {
		ex.ghost["attackerHasKey"] = true
		return nil
	}
	suffixStubs["vfWitness"] = func(ex *Exec, fn *ssa.Function, args []Value) Value {
		ex.ghost["witness"] = append(ex.witnesses(), toIdx(args[0].(*Term), types.Typ[types.Int]))
		return nil
	}
	suffixStubs["vfSealCount"] = func(ex *Exec, fn *ssa.Function, args []Value) Value {
		return BV(64, uint64(len(ex.sealTable())))
	}
}

package main

// Range-log byte memory: a persistent stack of layers; all bulk operations are O(1) even for
// symbolic lengths.  read() expands to a quantifier-free ite term.

import (
	"fmt"
	"sort"
)

type layerKind int

const (
	lZero layerKind = iota
	lFresh
	lConst
	lOverlay // concrete-index stores
	lStore   // symbolic-index store
	lCopy
	lGen
	lFill // n bytes of one value at dOff
)

type Layer struct {
	kind   layerKind
	below  *Layer
	arr    string // lFresh / lConst (array name for symbolic reads)
	base   *Term  // lFresh: index offset added before select (usually 0)
	data   []byte // lConst
	ov     map[uint64]*Term
	frozen bool
	idx    *Term // lStore
	val    *Term // lStore, lFill
	dOff   *Term
	sOff   *Term
	n      *Term
	src    *Layer
	gen    func(j *Term) *Term
	depth  int
	cache  map[*Term]*Term
}

var constArrCount int

func newLayer(kind layerKind, below *Layer) *Layer {
	l := &Layer{kind: kind, below: below}
	if below != nil {
		l.depth = below.depth + 1
	}
	return l
}

func zeroLayer() *Layer { return newLayer(lZero, nil) }
func freshLayer(arr string) *Layer {
	l := newLayer(lFresh, nil)
	l.arr = arr
	l.base = BV(64, 0)
	return l
}
func constLayer(ex *Exec, data []byte) *Layer {
	l := newLayer(lConst, zeroLayer())
	l.data = data
	constArrCount++
	l.arr = fmt.Sprintf("carr%d", constArrCount)
	if len(data) > 48 {
		ex.solver.RegisterConstArray(l.arr, data)
	}
	return l
}

func (l *Layer) snapshot() *Layer {
	l.frozen = true
	return l
}

// condResolver, when set, decides a layer condition that is implied (or refuted) by the current
// path condition, so that reads through range logs stay small.
var condResolver func(c *Term) *Term

func inRange(i, off, n *Term) *Term {
	// off <= i < off+n  (no wrap for the sizes that occur): (i-off) <u n
	c := Ult(Sub(i, off), n)
	if condResolver != nil && !c.IsConst() {
		return condResolver(c)
	}
	return c
}

func (l *Layer) read(i *Term) *Term {
	if l.cache != nil {
		if v, ok := l.cache[i]; ok {
			return v
		}
	}
	var r *Term
	switch l.kind {
	case lZero:
		return BV(8, 0)
	case lFresh:
		return Select(l.arr, Add(i, l.base))
	case lConst:
		if c, ok := i.ConstVal(); ok {
			if c < uint64(len(l.data)) {
				return BV(8, uint64(l.data[c]))
			}
			return l.below.read(i)
		}
		var in *Term
		if len(l.data) <= 48 {
			in = l.below.read(i)
			for k := len(l.data) - 1; k >= 0; k-- {
				in = Ite(Eq(i, BV(64, uint64(k))), BV(8, uint64(l.data[k])), in)
			}
			r = in
		} else {
			r = Ite(Ult(i, BV(64, uint64(len(l.data)))), Select(l.arr, i), l.below.read(i))
		}
	case lOverlay:
		if c, ok := i.ConstVal(); ok {
			if v, ok := l.ov[c]; ok {
				return v
			}
			return l.below.read(i)
		}
		keys := make([]uint64, 0, len(l.ov))
		for k := range l.ov {
			keys = append(keys, k)
		}
		sort.Slice(keys, func(a, b int) bool { return keys[a] < keys[b] })
		r = l.below.read(i)
		for _, k := range keys {
			r = Ite(Eq(i, BV(64, k)), l.ov[k], r)
		}
	case lStore:
		c := Eq(i, l.idx)
		if condResolver != nil && !c.IsConst() {
			c = condResolver(c)
		}
		switch c {
		case TTrue:
			return l.val
		case TFalse:
			r = l.below.read(i)
		default:
			r = Ite(c, l.val, l.below.read(i))
		}
	case lFill:
		c := inRange(i, l.dOff, l.n)
		switch c {
		case TTrue:
			return l.val
		case TFalse:
			r = l.below.read(i)
		default:
			r = Ite(c, l.val, l.below.read(i))
		}
	case lCopy:
		c := inRange(i, l.dOff, l.n)
		switch c {
		case TTrue:
			r = l.src.read(Add(Sub(i, l.dOff), l.sOff))
		case TFalse:
			r = l.below.read(i)
		default:
			r = Ite(c, l.src.read(Add(Sub(i, l.dOff), l.sOff)), l.below.read(i))
		}
	case lGen:
		c := inRange(i, l.dOff, l.n)
		switch c {
		case TTrue:
			r = l.gen(Sub(i, l.dOff))
		case TFalse:
			r = l.below.read(i)
		default:
			r = Ite(c, l.gen(Sub(i, l.dOff)), l.below.read(i))
		}
	}
	if l.cache == nil {
		l.cache = map[*Term]*Term{}
	}
	l.cache[i] = r
	return r
}

// store returns the new top layer after writing v at index i.
func (l *Layer) store(i, v *Term) *Layer {
	if c, ok := i.ConstVal(); ok {
		if l.kind == lOverlay && !l.frozen {
			l.ov[c] = v
			l.cache = nil
			return l
		}
		n := newLayer(lOverlay, l)
		n.ov = map[uint64]*Term{c: v}
		return n
	}
	n := newLayer(lStore, l)
	n.idx, n.val = i, v
	return n
}

func (l *Layer) copyFrom(dOff *Term, src *Layer, sOff, n *Term) *Layer {
	if c, ok := n.ConstVal(); ok {
		if c == 0 {
			return l
		}
		// small fully concrete copies become overlay stores (keeps later concrete reads cheap)
		_, dc := dOff.ConstVal()
		_, sc := sOff.ConstVal()
		if dc && sc && c <= 64 {
			top := l
			dv, _ := dOff.ConstVal()
			sv, _ := sOff.ConstVal()
			vals := make([]*Term, c)
			for k := uint64(0); k < c; k++ {
				vals[k] = src.read(BV(64, sv+k))
			}
			for k := uint64(0); k < c; k++ {
				top = top.store(BV(64, dv+k), vals[k])
			}
			return top
		}
	}
	nl := newLayer(lCopy, l)
	nl.dOff, nl.src, nl.sOff, nl.n = dOff, src.snapshot(), sOff, n
	l.frozen = true
	return nl
}

func (l *Layer) fill(dOff, n, v *Term) *Layer {
	if c, ok := n.ConstVal(); ok && c == 0 {
		return l
	}
	nl := newLayer(lFill, l)
	nl.dOff, nl.n, nl.val = dOff, n, v
	l.frozen = true
	return nl
}

func (l *Layer) genLayer(dOff, n *Term, gen func(j *Term) *Term) *Layer {
	nl := newLayer(lGen, l)
	nl.dOff, nl.n, nl.gen = dOff, n, gen
	l.frozen = true
	return nl
}

package main

// Environment models for the standard library and third-party leaves (DESIGN.md section 4).

import (
	"fmt"
	"go/types"
	"math/bits"
	"strings"

	"golang.org/x/tools/go/ssa"
)

func ptrKey(p *Ptr) string {
	var sb strings.Builder
	fmt.Fprintf(&sb, "%d", p.Obj.ID)
	for _, e := range p.Path {
		if e.T != nil {
			fmt.Fprintf(&sb, "/t%d", e.T.ID)
		} else {
			fmt.Fprintf(&sb, "/%d", e.I)
		}
	}
	return sb.String()
}

func (ex *Exec) ptrLoadTerm(p *Ptr) *Term {
	ex.nilCheck(p)
	ex.sched.access(p.Obj)
	if p.Obj.IsBytes {
		panic(unsupported("atomic on byte memory"))
	}
	return getAt(p.Obj.Val, p.Path).(*Term)
}

func (ex *Exec) ptrStoreVal(p *Ptr, v Value) {
	ex.nilCheck(p)
	ex.sched.access(p.Obj)
	p.Obj.Val = setAt(p.Obj.Val, p.Path, copyValue(v), TTrue)
}

func boolTerm(b bool) *Term { return Bool(b) }

func (ex *Exec) namedType(pkgPath, name string) types.Type {
	p := ex.prog.ImportedPackage(pkgPath)
	if p == nil {
		panic(unsupported("package not loaded: " + pkgPath))
	}
	m := p.Members[name]
	if m == nil {
		panic(unsupported("no type " + pkgPath + "." + name))
	}
	return m.(*ssa.Type).Type()
}

// newError builds an error value of the real type *errors.errorString.
func (ex *Exec) newError(msg string) *IfaceV {
	t := ex.namedType("errors", "errorString")
	o := ex.newCells(t, TupleV{ex.stringValue(msg)}, "error")
	return &IfaceV{Typ: types.NewPointer(t), Val: &Ptr{Obj: o}}
}

// newWrapError builds a *fmt.wrapError{msg, err}.
func (ex *Exec) newWrapError(msg string, inner *IfaceV) *IfaceV {
	t := ex.namedType("fmt", "wrapError")
	o := ex.newCells(t, TupleV{ex.stringValue(msg), inner}, "wrapError")
	return &IfaceV{Typ: types.NewPointer(t), Val: &Ptr{Obj: o}}
}

func (ex *Exec) newWrapErrors(msg string, inner []*IfaceV) *IfaceV {
	t := ex.namedType("fmt", "wrapErrors")
	st := types.NewSlice(types.Universe.Lookup("error").Type())
	arr := make(TupleV, len(inner))
	for i, e := range inner {
		arr[i] = e
	}
	ao := ex.newCells(types.NewArray(st.Elem(), int64(len(inner))), arr, "errs")
	n := BV(64, uint64(len(inner)))
	o := ex.newCells(t, TupleV{ex.stringValue(msg), &SliceV{Obj: ao, Off: BV(64, 0), Len: n, Cap: n}}, "wrapErrors")
	return &IfaceV{Typ: types.NewPointer(t), Val: &Ptr{Obj: o}}
}

func isErrorIface(v Value) (*IfaceV, bool) {
	iv, ok := v.(*IfaceV)
	if !ok || iv.Typ == nil {
		return nil, false
	}
	ms := types.NewMethodSet(iv.Typ)
	for i := 0; i < ms.Len(); i++ {
		if ms.At(i).Obj().Name() == "Error" {
			return iv, true
		}
	}
	return nil, false
}

func (ex *Exec) ifaceSliceElems(v Value) []Value {
	s := v.(*SliceV)
	n, ok := s.Len.ConstVal()
	if !ok {
		panic(unsupported("variadic of symbolic length"))
	}
	out := make([]Value, n)
	for i := range out {
		out[i] = ex.readElem(s, BV(64, uint64(i)))
	}
	return out
}

func (ex *Exec) hasMethod(t types.Type, name string) *ssa.Function {
	ms := ex.prog.MethodSets.MethodSet(t)
	for i := 0; i < ms.Len(); i++ {
		if ms.At(i).Obj().Name() == name {
			return ex.prog.MethodValue(ms.At(i))
		}
	}
	return nil
}

// errorChain visits err and everything it wraps (depth first), until f returns true.
func (ex *Exec) errorChain(err *IfaceV, f func(e *IfaceV) bool) bool {
	if err == nil || err.Typ == nil {
		return false
	}
	if f(err) {
		return true
	}
	if fn := ex.hasMethod(err.Typ, "Unwrap"); fn != nil {
		r := ex.callFunction(fn, []Value{err.Val}, nil, nil)
		switch x := r.(type) {
		case *IfaceV:
			return ex.errorChain(x, f)
		case *SliceV:
			if x.Obj == nil {
				return false
			}
			for _, e := range ex.ifaceSliceElems(x) {
				if ex.errorChain(e.(*IfaceV), f) {
					return true
				}
			}
		}
	}
	return false
}

func (ex *Exec) errorsIs(err, target *IfaceV) bool {
	if err == nil || target == nil || err.Typ == nil || target.Typ == nil {
		return (err == nil || err.Typ == nil) && (target == nil || target.Typ == nil)
	}
	return ex.errorChain(err, func(e *IfaceV) bool {
		if types.Identical(e.Typ, target.Typ) {
			if c := ex.equalValues(e.Val, target.Val); c == TTrue {
				return true
			} else if c != TFalse {
				panic(unsupported("errors.Is on symbolic error identity"))
			}
		}
		if fn := ex.hasMethod(e.Typ, "Is"); fn != nil {
			r := ex.callFunction(fn, []Value{e.Val, target}, nil, nil).(*Term)
			if r == TTrue {
				return true
			}
			if r != TFalse {
				return ex.branch(r)
			}
		}
		return false
	})
}

func opaqueStub(what string) stubFn {
	return func(ex *Exec, fn *ssa.Function, args []Value) Value {
		return ex.opaqueResult(fn, what)
	}
}

// opaqueResult builds a result of the function's result type out of opaque / zero values.
func (ex *Exec) opaqueResult(fn *ssa.Function, what string) Value {
	res := fn.Signature.Results()
	mk := func(t types.Type) Value {
		if isStringType(t) {
			return ex.stringValue("<" + what + ">")
		}
		switch t.Underlying().(type) {
		case *types.Interface:
			if t.String() == "error" {
				return &IfaceV{}
			}
			return &IfaceV{}
		case *types.Struct, *types.Array, *types.Pointer, *types.Slice, *types.Map:
			return ex.zero(t)
		}
		return ex.zero(t)
	}
	switch res.Len() {
	case 0:
		return nil
	case 1:
		return mk(res.At(0).Type())
	}
	tv := make(TupleV, res.Len())
	for i := range tv {
		tv[i] = mk(res.At(i).Type())
	}
	return tv
}

func noop(ex *Exec, fn *ssa.Function, args []Value) Value { return ex.opaqueResult(fn, "noop") }

// bitsTerm helpers -------------------------------------------------------------

func onesCount(x *Term) *Term {
	if c, ok := x.ConstVal(); ok {
		return BV(64, uint64(bits.OnesCount64(c)))
	}
	acc := BV(64, 0)
	for i := 0; i < x.W; i++ {
		acc = Add(acc, ZExt(Extract(x, i, i), 64))
	}
	return acc
}

func trailingZeros(x *Term) *Term {
	if c, ok := x.ConstVal(); ok {
		if c == 0 {
			return BV(64, uint64(x.W))
		}
		return BV(64, uint64(bits.TrailingZeros64(c)))
	}
	acc := BV(64, uint64(x.W))
	for i := x.W - 1; i >= 0; i-- {
		acc = Ite(Eq(Extract(x, i, i), BV(1, 1)), BV(64, uint64(i)), acc)
	}
	return acc
}

func bitLen(x *Term) *Term {
	if c, ok := x.ConstVal(); ok {
		return BV(64, uint64(bits.Len64(c)))
	}
	acc := BV(64, 0)
	for i := 0; i < x.W; i++ {
		acc = Ite(Eq(Extract(x, i, i), BV(1, 1)), BV(64, uint64(i+1)), acc)
	}
	return acc
}

// indexByte returns the first index of c in s (as a 64-bit signed term), or -1.
func (ex *Exec) indexByte(s *SliceV, c *Term) *Term {
	if s.Obj == nil {
		return BV(64, ^uint64(0))
	}
	n, ok := s.Len.ConstVal()
	bound := n
	if !ok {
		bound = 1 << 62
		if s.Obj.IsBytes {
			if sz, ok := s.Obj.Size.ConstVal(); ok {
				bound = sz
			}
		} else if cp, ok := s.Cap.ConstVal(); ok {
			bound = cp
		}
		if bound > 2048 {
			panic(unsupported("IndexByte over a buffer of unbounded symbolic length"))
		}
	}
	if bound > 70000 {
		panic(unsupported("IndexByte over a huge buffer"))
	}
	r := BV(64, ^uint64(0))
	for i := int64(bound) - 1; i >= 0; i-- {
		it := BV(64, uint64(i))
		hit := Eq(ex.readElem(s, it).(*Term), c)
		if !ok {
			hit = AndB(Ult(it, s.Len), hit)
		}
		r = Ite(hit, it, r)
	}
	return r
}

func init() {
	// ---- bytealg / bytes / strings leaves
	idx := func(ex *Exec, fn *ssa.Function, args []Value) Value {
		return ex.indexByte(args[0].(*SliceV), args[1].(*Term))
	}
	regStub("internal/bytealg.IndexByte", idx)
	regStub("internal/bytealg.IndexByteString", idx)
	regStub("bytes.IndexByte", idx)
	regStub("strings.IndexByte", idx)
	eq := func(ex *Exec, fn *ssa.Function, args []Value) Value {
		a, b := args[0].(*SliceV), args[1].(*SliceV)
		return ex.stringEq(a, b)
	}
	regStub("bytes.Equal", eq)
	regStub("internal/bytealg.Equal", eq)
	regStub("crypto/subtle.ConstantTimeCompare", func(ex *Exec, fn *ssa.Function, args []Value) Value {
		a, b := args[0].(*SliceV), args[1].(*SliceV)
		return Ite(ex.stringEq(a, b), BV(64, 1), BV(64, 0))
	})
	regStub("internal/bytealg.MakeNoZero", func(ex *Exec, fn *ssa.Function, args []Value) Value {
		n := args[0].(*Term)
		o := ex.newBytes(zeroLayer(), n, "makenozero")
		return &SliceV{Obj: o, Off: BV(64, 0), Len: n, Cap: n}
	})
	regStub("internal/bytealg.CountString", func(ex *Exec, fn *ssa.Function, args []Value) Value {
		s, ok := ex.concreteString(args[0].(*SliceV))
		c, ok2 := args[1].(*Term).ConstVal()
		if !ok || !ok2 {
			panic(unsupported("bytealg.CountString symbolic"))
		}
		return BV(64, uint64(strings.Count(s, string(rune(c)))))
	})
	regStub("internal/bytealg.IndexString", func(ex *Exec, fn *ssa.Function, args []Value) Value {
		a, ok := ex.concreteString(args[0].(*SliceV))
		b, ok2 := ex.concreteString(args[1].(*SliceV))
		if !ok || !ok2 {
			panic(unsupported("bytealg.IndexString symbolic"))
		}
		return BV(64, uint64(int64(strings.Index(a, b))))
	})
	regStub("strings.Index", exactStubs["internal/bytealg.IndexString"])
	regStub("strings.Contains", func(ex *Exec, fn *ssa.Function, args []Value) Value {
		hs := args[0].(*SliceV)
		a, ok := ex.concreteString(hs)
		b, ok2 := ex.concreteString(args[1].(*SliceV))
		if ok && ok2 {
			return Bool(strings.Contains(a, b))
		}
		// symbolic haystack of concrete length, concrete needle: a disjunction over the offsets
		n, okn := hs.Len.ConstVal()
		if !ok2 || !okn || n > 4096 {
			panic(unsupported("strings.Contains symbolic"))
		}
		if len(b) == 0 {
			return TTrue
		}
		if uint64(len(b)) > n {
			return TFalse
		}
		hb := ex.readBytes(hs, int(n))
		var alts []*Term
		for off := 0; off+len(b) <= int(n); off++ {
			conj := make([]*Term, len(b))
			for j := 0; j < len(b); j++ {
				conj[j] = Eq(hb[off+j], BV(8, uint64(b[j])))
			}
			alts = append(alts, AndB(conj...))
		}
		return OrB(alts...)
	})
	regStub(modPath+"/conn.AddrPortMappedEqual", func(ex *Exec, fn *ssa.Function, args []Value) Value {
		// summary of the [16]byte view over the two address words: equal iff hi, lo and port are equal
		var l, r []Value
		flatten(args[0], &l)
		flatten(args[1], &r)
		return AndB(Eq(l[0].(*Term), r[0].(*Term)), Eq(l[1].(*Term), r[1].(*Term)), Eq(l[3].(*Term), r[3].(*Term)))
	})
	regPrefix("slices.overlaps[", func(ex *Exec, fn *ssa.Function, args []Value) Value {
		// distinct backing arrays never overlap (the general case needs address arithmetic)
		a, b := args[0].(*SliceV), args[1].(*SliceV)
		if a.Obj == nil || b.Obj == nil || a.Obj != b.Obj {
			return TFalse
		}
		panic(unsupported("slices.overlaps on slices of one array"))
	})
	regStub("maps.Clone", func(ex *Exec, fn *ssa.Function, args []Value) Value {
		m, _ := args[0].(*MapV)
		if m == nil {
			return m
		}
		objCount++
		nm := &MapV{ID: objCount, KeyT: m.KeyT, ValT: m.ValT}
		for _, e := range m.Entries {
			nm.Entries = append(nm.Entries, &MapEntry{K: copyValue(e.K), V: copyValue(e.V)})
		}
		return nm
	})
	// ---- bart.Lite: a prefix set is modelled by the list of prefixes inserted into it; Contains is
	// the disjunction of the real netip.Prefix.Contains over that list (bart itself is outside the claim)
	bartList := func(ex *Exec, v Value) *[]Value {
		p := v.(*Ptr)
		ex.nilCheck(p)
		k := "bart:" + ptrKey(p) // &lite and &lite.liteTable (field 0) name the same set
		for strings.HasSuffix(k, "/0") {
			k = strings.TrimSuffix(k, "/0")
		}
		l, ok := ex.ghost[k].(*[]Value)
		if !ok {
			l = &[]Value{}
			ex.ghost[k] = l
		}
		return l
	}
	regStub("(*github.com/gaissmai/bart.Lite).Insert", func(ex *Exec, fn *ssa.Function, args []Value) Value {
		l := bartList(ex, args[0])
		*l = append(*l, copyValue(args[1]))
		return nil
	})
	regStub("(*github.com/gaissmai/bart.Lite).Union", func(ex *Exec, fn *ssa.Function, args []Value) Value {
		l := bartList(ex, args[0])
		o := bartList(ex, args[1])
		*l = append(*l, *o...)
		return nil
	})
	regStub("(*github.com/gaissmai/bart.Lite).Contains", func(ex *Exec, fn *ssa.Function, args []Value) Value {
		l := bartList(ex, args[0])
		pt := ex.namedType("net/netip", "Prefix")
		contains := ex.prog.LookupMethod(pt, nil, "Contains")
		if contains == nil {
			panic(unsupported("netip.Prefix.Contains not found"))
		}
		res := TFalse
		for _, pfx := range *l {
			r := ex.callFunction(contains, []Value{copyValue(pfx), copyValue(args[1])}, nil, nil).(*Term)
			res = OrB(res, r)
		}
		return res
	})
	for _, m := range []string{"Insert", "Union", "Contains"} {
		exactStubs["(*github.com/gaissmai/bart.liteTable[V])."+m] = exactStubs["(*github.com/gaissmai/bart.Lite)."+m]
	}
	regStub("strings.Clone", func(ex *Exec, fn *ssa.Function, args []Value) Value { return args[0] })
	regStub("runtime.KeepAlive", noop)
	regStub("runtime.Gosched", func(ex *Exec, fn *ssa.Function, args []Value) Value { ex.sched.point(); return nil })

	// ---- math/bits
	regStub("math/bits.OnesCount", func(ex *Exec, fn *ssa.Function, args []Value) Value { return onesCount(args[0].(*Term)) })
	regStub("math/bits.OnesCount64", func(ex *Exec, fn *ssa.Function, args []Value) Value { return onesCount(args[0].(*Term)) })
	regStub("math/bits.TrailingZeros", func(ex *Exec, fn *ssa.Function, args []Value) Value { return trailingZeros(args[0].(*Term)) })
	regStub("math/bits.TrailingZeros64", func(ex *Exec, fn *ssa.Function, args []Value) Value { return trailingZeros(args[0].(*Term)) })
	regStub("math/bits.TrailingZeros32", func(ex *Exec, fn *ssa.Function, args []Value) Value { return trailingZeros(args[0].(*Term)) })
	regStub("math/bits.Len64", func(ex *Exec, fn *ssa.Function, args []Value) Value { return bitLen(args[0].(*Term)) })
	regStub("math/bits.Len", func(ex *Exec, fn *ssa.Function, args []Value) Value { return bitLen(args[0].(*Term)) })
	regStub("math/bits.Len32", func(ex *Exec, fn *ssa.Function, args []Value) Value { return bitLen(args[0].(*Term)) })
	regStub("math/bits.LeadingZeros64", func(ex *Exec, fn *ssa.Function, args []Value) Value {
		return Sub(BV(64, 64), bitLen(args[0].(*Term)))
	})

	// ---- errors / fmt
	regStub("errors.Is", func(ex *Exec, fn *ssa.Function, args []Value) Value {
		return Bool(ex.errorsIs(args[0].(*IfaceV), args[1].(*IfaceV)))
	})
	regStub("errors.AsType", func(ex *Exec, fn *ssa.Function, args []Value) Value {
		want := fn.Signature.Results().At(0).Type()
		var found Value
		ok := ex.errorChain(args[0].(*IfaceV), func(e *IfaceV) bool {
			if it, isI := want.Underlying().(*types.Interface); isI {
				if types.Implements(e.Typ, it) {
					found = e
					return true
				}
				return false
			}
			if types.Identical(e.Typ, want) {
				found = e.Val
				return true
			}
			return false
		})
		if !ok {
			return TupleV{ex.zero(want), TFalse}
		}
		return TupleV{found, TTrue}
	})
	regStub("errors.As", func(ex *Exec, fn *ssa.Function, args []Value) Value {
		tgt := args[1].(*IfaceV)
		pt, ok := tgt.Typ.(*types.Pointer)
		if !ok {
			panic(unsupported("errors.As target"))
		}
		want := pt.Elem()
		p := tgt.Val.(*Ptr)
		hit := ex.errorChain(args[0].(*IfaceV), func(e *IfaceV) bool {
			if it, isI := want.Underlying().(*types.Interface); isI {
				if types.Implements(e.Typ, it) {
					ex.store(p, e, want)
					return true
				}
				return false
			}
			if types.Identical(e.Typ, want) {
				ex.store(p, e.Val, want)
				return true
			}
			return false
		})
		return Bool(hit)
	})
	regStub("errors.Join", func(ex *Exec, fn *ssa.Function, args []Value) Value {
		var inner []*IfaceV
		for _, e := range ex.ifaceSliceElems(args[0]) {
			if iv := e.(*IfaceV); iv.Typ != nil {
				inner = append(inner, iv)
			}
		}
		if len(inner) == 0 {
			return &IfaceV{}
		}
		return ex.newWrapErrors("<joined>", inner)
	})
	regStub("fmt.Errorf", func(ex *Exec, fn *ssa.Function, args []Value) Value {
		format, ok := ex.concreteString(args[0].(*SliceV))
		if !ok {
			format = "<fmt>"
		}
		nw := strings.Count(format, "%w")
		var wrapped []*IfaceV
		if nw > 0 && args[1].(*SliceV).Obj != nil {
			// collect the operands consumed by %w verbs, in order
			verbs := fmtVerbs(format)
			ops := ex.ifaceSliceElems(args[1])
			for i, v := range verbs {
				if v == 'w' && i < len(ops) {
					if inner, ok := ops[i].(*IfaceV); ok && inner.Typ != nil {
						if _, isErr := isErrorIface(inner); isErr {
							wrapped = append(wrapped, inner)
						}
					}
				}
			}
		}
		switch len(wrapped) {
		case 0:
			return ex.newError(format)
		case 1:
			return ex.newWrapError(format, wrapped[0])
		}
		return ex.newWrapErrors(format, wrapped)
	})
	for _, n := range []string{"fmt.Sprintf", "fmt.Sprint", "fmt.Sprintln", "fmt.Fprintf", "fmt.Fprint", "fmt.Fprintln", "fmt.Printf", "fmt.Println", "fmt.Appendf", "fmt.Append"} {
		regStub(n, opaqueStub("fmt"))
	}

	// ---- zap logging: no effect
	regPrefix("(*go.uber.org/zap.Logger).", func(ex *Exec, fn *ssa.Function, args []Value) Value {
		res := fn.Signature.Results()
		if res.Len() == 1 {
			if _, isPtr := res.At(0).Type().(*types.Pointer); isPtr {
				name := fn.Name()
				if name == "Check" {
					return nilPtr
				}
				return args[0] // With, Named, WithOptions, ...
			}
		}
		return ex.opaqueResult(fn, "zap")
	})
	regPrefix("(*go.uber.org/zap/zapcore.CheckedEntry).", noop)
	regPrefix("go.uber.org/zap.", func(ex *Exec, fn *ssa.Function, args []Value) Value {
		res := fn.Signature.Results()
		if res.Len() >= 1 {
			if _, isPtr := res.At(0).Type().(*types.Pointer); isPtr && strings.HasPrefix(fn.Name(), "New") {
				// zap.NewNop etc: a logger object
				t := res.At(0).Type().(*types.Pointer).Elem()
				return &Ptr{Obj: ex.newCells(t, ex.zero(t), "logger")}
			}
		}
		return ex.opaqueResult(fn, "zapfield")
	})
	regPrefix("(*github.com/database64128/shadowsocks-go/logging.", noop)

	// ---- unique
	regStub("unique.Make", func(ex *Exec, fn *ssa.Function, args []Value) Value {
		// Handle[T]{value *T}: canonicalise by value when concrete
		t := fn.Signature.Results().At(0).Type()
		if sv, ok := args[0].(*SliceV); ok {
			if _, conc := ex.concreteString(sv); !conc {
				// symbolic string: a fresh (non-canonical) handle; handle identity is not relied on
				o := ex.newCells(fn.Signature.Params().At(0).Type(), args[0], "unique")
				return TupleV{&Ptr{Obj: o}}
			}
		}
		key := "unique:" + ex.describeKey(args[0])
		if o, ok := ex.ghost[key].(*Object); ok {
			return TupleV{&Ptr{Obj: o}}
		}
		o := ex.newCells(fn.Signature.Params().At(0).Type(), copyValue(args[0]), "unique")
		ex.ghost[key] = o
		_ = t
		return TupleV{&Ptr{Obj: o}}
	})
}

// describeKey renders a concrete value as a map key (unique.Make canonicalisation).
func (ex *Exec) describeKey(v Value) string {
	switch x := v.(type) {
	case *Term:
		if c, ok := x.ConstVal(); ok {
			return fmt.Sprintf("%d", c)
		}
		return fmt.Sprintf("t%d", x.ID)
	case *SliceV:
		if s, ok := ex.concreteString(x); ok {
			return fmt.Sprintf("%q", s)
		}
		panic(unsupported("unique.Make of symbolic string"))
	case TupleV:
		var parts []string
		for _, e := range x {
			parts = append(parts, ex.describeKey(e))
		}
		return "{" + strings.Join(parts, ",") + "}"
	case *Ptr:
		if isNilPtr(x) {
			return "nil"
		}
		return "p" + ptrKey(x)
	}
	return fmt.Sprintf("%T", v)
}

// fmtVerbs lists the verb letters of a format string in operand order (ignoring %%).
func fmtVerbs(format string) []byte {
	var out []byte
	for i := 0; i < len(format); i++ {
		if format[i] != '%' {
			continue
		}
		i++
		for i < len(format) && strings.IndexByte("+-# 0123456789.[]*", format[i]) >= 0 {
			i++
		}
		if i < len(format) && format[i] != '%' {
			out = append(out, format[i])
		}
	}
	return out
}

package main

// File-system and JSON-document models for the credential store (DESIGN.md 4.7).
//
// A JSON document produced by json.MarshalIndent is a byte object with fresh content and a ghost
// *docModel (the map it encodes).  Files hold (object, length).  Decoding a whole document (or a
// document lacking only its final newline) gives back the map; a shorter prefix does not parse.
// Writes can crash or fail after a symbolic number of bytes when the harness enables faults.

import (
	"fmt"
	"go/types"
	"sort"

	"golang.org/x/tools/go/ssa"
)

type docEntry struct {
	name string
	val  []*Term
}

type docModel struct {
	id      int
	entries []docEntry
}

// docEq: two documents encode the same map (entries are kept sorted by name).
func docEq(a, b *docModel) *Term {
	if len(a.entries) != len(b.entries) {
		return TFalse
	}
	c := TTrue
	for i := range a.entries {
		if a.entries[i].name != b.entries[i].name || len(a.entries[i].val) != len(b.entries[i].val) {
			return TFalse
		}
		c = AndB(c, eqAll(a.entries[i].val, b.entries[i].val))
	}
	return c
}

func (d *docModel) sortEntries() {
	sort.Slice(d.entries, func(i, j int) bool { return d.entries[i].name < d.entries[j].name })
}

type fileState struct {
	obj *Object // content object (nil = empty file)
	n   *Term   // length
}

type crashSignal struct{}

func (ex *Exec) fs() map[string]*fileState {
	m, ok := ex.ghost["fs"].(map[string]*fileState)
	if !ok {
		m = map[string]*fileState{}
		ex.ghost["fs"] = m
	}
	return m
}

func (ex *Exec) pathArg(v Value) string {
	s, ok := ex.concreteString(v.(*SliceV))
	if !ok {
		panic(unsupported("symbolic file path"))
	}
	return s
}

func (ex *Exec) osError(msg string) *IfaceV { return ex.cachedError(msg) }

// faultPoint decides, for a write of n bytes, whether the operation completes (0), the process
// crashes before it (1), crashes after c bytes (2) or fails with an error after c bytes (3).
func (ex *Exec) faultPoint(n *Term) (kind int, c *Term) {
	if ex.ghost["faults"] == nil || ex.ghost["faulted"] != nil {
		return 0, n
	}
	k := ex.newInput("fault.kind", 8)
	c = ex.newInput("fault.bytes", 64)
	conds := []*Term{Eq(k, BV(8, 0)), Eq(k, BV(8, 1)), AndB(Eq(k, BV(8, 2)), Ule(c, n)), AndB(Eq(k, BV(8, 3)), Ult(c, n))}
	kind = ex.choose(conds)
	if kind != 0 {
		ex.ghost["faulted"] = true // one fault per run
	}
	return kind, c
}

func (ex *Exec) writeContent(path string, data *SliceV, n *Term) {
	if data.Obj == nil {
		ex.fs()[path] = &fileState{n: BV(64, 0)}
		return
	}
	if c, ok := data.Off.ConstVal(); !ok || c != 0 {
		// copy into a fresh object so that file offsets start at 0
		o := ex.newBytes(ex.copyInto(zeroLayer(), BV(64, 0), data, data.Len), data.Len, "file")
		o.Doc = data.Obj.Doc
		o.DocLen = data.Obj.DocLen
		ex.fs()[path] = &fileState{obj: o, n: n}
		return
	}
	// snapshot: later mutation of the buffer must not change the file
	o := ex.newBytes(data.Obj.Top.snapshot(), data.Obj.Size, "file")
	o.Doc = data.Obj.Doc
	o.DocLen = data.Obj.DocLen
	ex.fs()[path] = &fileState{obj: o, n: n}
}

func init() {
	regStub("encoding/json.MarshalIndent", func(ex *Exec, fn *ssa.Function, args []Value) Value {
		iv := args[0].(*IfaceV)
		m, ok := iv.Val.(*MapV)
		if !ok {
			panic(unsupported("json.MarshalIndent of " + fmt.Sprint(iv.Typ)))
		}
		dm := &docModel{id: len(ex.fresh) + objCount}
		if m != nil {
			for _, e := range m.Entries {
				name, ok := ex.concreteString(e.K.(*SliceV))
				if !ok {
					panic(unsupported("json: symbolic map key"))
				}
				v := e.V.(*SliceV)
				vn, ok := v.Len.ConstVal()
				if !ok {
					panic(unsupported("json: value of symbolic length"))
				}
				var bs []*Term
				if v.Obj != nil {
					bs = ex.readBytes(v, int(vn))
				}
				dm.entries = append(dm.entries, docEntry{name: name, val: bs})
			}
		}
		dm.sortEntries()
		name := ex.freshName("doc")
		n := ex.freshVar("doclen", 64)
		ex.assume(AndB(Uge(n, BV(64, 2)), Ule(n, BV(64, 4096))))
		o := ex.newBytes(freshLayer(name), Add(n, BV(64, 8)), name) // a little spare capacity, as in Go
		o.Doc = dm
		o.DocLen = Add(n, BV(64, 1)) // the caller appends the final newline
		return TupleV{&SliceV{Obj: o, Off: BV(64, 0), Len: n, Cap: Add(n, BV(64, 8))}, &IfaceV{}}
	})
	regStub("os.WriteFile", func(ex *Exec, fn *ssa.Function, args []Value) Value {
		path := ex.pathArg(args[0])
		data := args[1].(*SliceV)
		kind, c := ex.faultPoint(data.Len)
		switch kind {
		case 1:
			panic(crashSignal{})
		case 2:
			ex.writeContent(path, data, c)
			panic(crashSignal{})
		case 3:
			ex.writeContent(path, data, c)
			return ex.osError("write: no space left on device")
		}
		ex.writeContent(path, data, data.Len)
		return &IfaceV{}
	})
	regStub("os.Rename", func(ex *Exec, fn *ssa.Function, args []Value) Value {
		from, to := ex.pathArg(args[0]), ex.pathArg(args[1])
		kind, _ := ex.faultPoint(BV(64, 1))
		switch kind {
		case 1, 2:
			// rename is atomic: a crash happens either before it (2 is folded into "before")
			panic(crashSignal{})
		case 3:
			return ex.osError("rename failed")
		}
		f, ok := ex.fs()[from]
		if !ok {
			return ex.osError("rename: no such file")
		}
		ex.fs()[to] = f
		delete(ex.fs(), from)
		return &IfaceV{}
	})
	regStub("os.Remove", func(ex *Exec, fn *ssa.Function, args []Value) Value {
		p := ex.pathArg(args[0])
		if _, ok := ex.fs()[p]; !ok {
			return ex.osError("remove: no such file")
		}
		delete(ex.fs(), p)
		return &IfaceV{}
	})
	// temp files: *os.File values are model objects
	regStub("os.CreateTemp", func(ex *Exec, fn *ssa.Function, args []Value) Value {
		dir := ex.pathArg(args[0])
		kind, _ := ex.faultPoint(BV(64, 1))
		switch kind {
		case 1, 2:
			panic(crashSignal{})
		case 3:
			return TupleV{nilPtr, ex.osError("create temp failed")}
		}
		ex.fresh["tmpfile"]++
		if dir == "" {
			dir = "/tmp"
		}
		name := fmt.Sprintf("%s/.vftmp%d", dir, ex.fresh["tmpfile"])
		ex.fs()[name] = &fileState{n: BV(64, 0)}
		ft := ex.namedType("os", "File")
		o := ex.newCells(ft, ex.zero(ft), "file:"+name)
		ex.ghost["file:"+fmt.Sprint(o.ID)] = name
		return TupleV{&Ptr{Obj: o}, &IfaceV{}}
	})
	fileName := func(ex *Exec, v Value) string {
		p := v.(*Ptr)
		ex.nilCheck(p)
		n, _ := ex.ghost["file:"+fmt.Sprint(p.Obj.ID)].(string)
		if n == "" {
			panic(unsupported("os.File not created by the model"))
		}
		return n
	}
	regStub("(*os.File).Name", func(ex *Exec, fn *ssa.Function, args []Value) Value {
		return ex.stringValue(fileName(ex, args[0]))
	})
	regStub("(*os.File).Write", func(ex *Exec, fn *ssa.Function, args []Value) Value {
		name := fileName(ex, args[0])
		data := args[1].(*SliceV)
		f := ex.fs()[name]
		if f == nil || f.n != BV(64, 0) {
			panic(unsupported("model supports one Write per temp file"))
		}
		kind, c := ex.faultPoint(data.Len)
		switch kind {
		case 1:
			panic(crashSignal{})
		case 2:
			ex.writeContent(name, data, c)
			panic(crashSignal{})
		case 3:
			ex.writeContent(name, data, c)
			return TupleV{c, ex.osError("write: no space left on device")}
		}
		ex.writeContent(name, data, data.Len)
		return TupleV{data.Len, &IfaceV{}}
	})
	for _, m := range []string{"Sync", "Close"} {
		regStub("(*os.File)."+m, func(ex *Exec, fn *ssa.Function, args []Value) Value {
			fileName(ex, args[0])
			kind, _ := ex.faultPoint(BV(64, 1))
			switch kind {
			case 1, 2:
				panic(crashSignal{})
			case 3:
				return ex.osError("file " + fn.Name() + " failed")
			}
			return &IfaceV{}
		})
	}
	regStub("(*os.File).Chmod", func(ex *Exec, fn *ssa.Function, args []Value) Value { return &IfaceV{} })
	regStub("path/filepath.Dir", func(ex *Exec, fn *ssa.Function, args []Value) Value {
		p := ex.pathArg(args[0])
		i := len(p) - 1
		for i > 0 && p[i] != '/' {
			i--
		}
		if i <= 0 {
			return ex.stringValue(".")
		}
		return ex.stringValue(p[:i])
	})
	regStub("path/filepath.Base", func(ex *Exec, fn *ssa.Function, args []Value) Value {
		p := ex.pathArg(args[0])
		i := len(p) - 1
		for i >= 0 && p[i] != '/' {
			i--
		}
		return ex.stringValue(p[i+1:])
	})
	// mmap.ReadFile[string] / [[]byte]
	regStub(modPath+"/mmap.ReadFile", func(ex *Exec, fn *ssa.Function, args []Value) Value {
		path := ex.pathArg(args[0])
		rt := fn.Signature.Results().At(0).Type()
		isStr := isStringType(rt)
		closeFn := &FuncV{Name: "mmap.close", Native: func(ex *Exec, a []Value) Value { return &IfaceV{} }}
		f, ok := ex.fs()[path]
		if !ok {
			return TupleV{ex.zero(rt), (*FuncV)(nil), ex.osError("open: no such file or directory")}
		}
		if f.obj == nil {
			return TupleV{ex.zero(rt), closeFn, &IfaceV{}}
		}
		return TupleV{&SliceV{Obj: f.obj, Off: BV(64, 0), Len: f.n, Cap: f.n, Str: isStr}, closeFn, &IfaceV{}}
	})
	// JSON decoding of a store document
	regStub("encoding/json.NewDecoder", func(ex *Exec, fn *ssa.Function, args []Value) Value {
		r := args[0].(*IfaceV)
		if r.Typ == nil || r.Typ.String() != "*strings.Reader" {
			panic(unsupported("json.NewDecoder over " + fmt.Sprint(r.Typ)))
		}
		rp := r.Val.(*Ptr)
		s := getAt(rp.Obj.Val, rp.Path).(TupleV)[0].(*SliceV)
		dt := ex.namedType("encoding/json", "Decoder")
		o := ex.newCells(dt, ex.zero(dt), "jsondec")
		ex.ghost["jsondec:"+fmt.Sprint(o.ID)] = s
		return &Ptr{Obj: o}
	})
	regStub("(*encoding/json.Decoder).DisallowUnknownFields", noop)
	regStub("(*encoding/json.Decoder).Decode", func(ex *Exec, fn *ssa.Function, args []Value) Value {
		p := args[0].(*Ptr)
		s, _ := ex.ghost["jsondec:"+fmt.Sprint(p.Obj.ID)].(*SliceV)
		if s == nil {
			panic(unsupported("json decoder not created by the model"))
		}
		target := args[1].(*IfaceV)
		pt, ok := target.Typ.(*types.Pointer)
		if !ok {
			panic(unsupported("json.Decode target"))
		}
		mt, ok := pt.Elem().Underlying().(*types.Map)
		if !ok {
			panic(unsupported("json.Decode into " + pt.Elem().String()))
		}
		if s.Obj == nil || s.Obj.Doc == nil {
			if s.Obj == nil {
				return ex.osError("EOF")
			}
			panic(unsupported("json.Decode of bytes that are not a model document"))
		}
		full := s.Obj.DocLen
		// whole document, or the document without its final newline
		whole := AndB(Eq(s.Off, BV(64, 0)), OrB(Eq(s.Len, full), Eq(Add(s.Len, BV(64, 1)), full)))
		if !ex.branch(whole) {
			return ex.osError("json: unexpected end of input")
		}
		objCount++
		nm := &MapV{ID: objCount, KeyT: mt.Key(), ValT: mt.Elem()}
		for _, e := range s.Obj.Doc.entries {
			vo := ex.newBytes(zeroLayer(), BV(64, uint64(len(e.val))), "upsk")
			vs := &SliceV{Obj: vo, Off: BV(64, 0), Len: BV(64, uint64(len(e.val))), Cap: BV(64, uint64(len(e.val)))}
			ex.writeBytes(vs, e.val)
			nm.Entries = append(nm.Entries, &MapEntry{K: ex.stringValue(e.name), V: vs})
		}
		ex.store(target.Val.(*Ptr), nm, pt.Elem())
		return &IfaceV{}
	})
	// harness controls
	suffixStubs["vfEnableFaults"] = func(ex *Exec, fn *ssa.Function, args []Value) Value {
		ex.ghost["faults"] = true
		return nil
	}
	suffixStubs["vfCrashable"] = func(ex *Exec, fn *ssa.Function, args []Value) (res Value) {
		saved := ex.curFrame
		res = TFalse
		defer func() {
			if r := recover(); r != nil {
				if _, ok := r.(crashSignal); ok {
					ex.curFrame = saved
					// the process is gone: every goroutine it had dies with it
					ex.sched.killOthers()
					res = TTrue
					return
				}
				panic(r)
			}
		}()
		ex.callValue(args[0], nil, nil)
		return TFalse
	}
	suffixStubs["vfWriteStore"] = func(ex *Exec, fn *ssa.Function, args []Value) Value {
		// vfWriteStore(path string, names []string, keys [][]byte): a well-formed store document
		path := ex.pathArg(args[0])
		names := ex.ifaceSliceElemsAny(args[1])
		keys := ex.ifaceSliceElemsAny(args[2])
		dm := &docModel{id: objCount}
		for i := range names {
			name, ok := ex.concreteString(names[i].(*SliceV))
			if !ok {
				panic(unsupported("vfWriteStore: symbolic name"))
			}
			k := keys[i].(*SliceV)
			kn, ok := k.Len.ConstVal()
			if !ok {
				panic(unsupported("vfWriteStore: key of symbolic length"))
			}
			dm.entries = append(dm.entries, docEntry{name: name, val: ex.readBytes(k, int(kn))})
		}
		dm.sortEntries()
		dn := ex.freshName("doc")
		n := ex.freshVar("doclen", 64)
		ex.assume(AndB(Uge(n, BV(64, 2)), Ule(n, BV(64, 4096))))
		o := ex.newBytes(freshLayer(dn), n, dn)
		o.Doc = dm
		o.DocLen = n
		ex.fs()[path] = &fileState{obj: o, n: n}
		return nil
	}
	suffixStubs["vfSetPathValue"] = func(ex *Exec, fn *ssa.Function, args []Value) Value {
		ex.ghost["pathvalue:"+ex.argString(args[0])] = args[1]
		return nil
	}
	regStub("(*net/http.Request).PathValue", func(ex *Exec, fn *ssa.Function, args []Value) Value {
		if v, ok := ex.ghost["pathvalue:"+ex.argString(args[1])]; ok {
			return v
		}
		return ex.stringValue("")
	})
	regStub("(*net/url.URL).Query", func(ex *Exec, fn *ssa.Function, args []Value) Value {
		mt := fn.Signature.Results().At(0).Type().Underlying().(*types.Map)
		objCount++
		return &MapV{ID: objCount, KeyT: mt.Key(), ValT: mt.Elem()} // the model request carries no query parameters
	})
	regStub(modPath+"/api/internal/restapi.EncodeResponse", func(ex *Exec, fn *ssa.Function, args []Value) Value {
		ex.ghost["captured"] = args[2]
		return TupleV{args[1], &IfaceV{}}
	})
	suffixStubs["vfCapturedU64"] = func(ex *Exec, fn *ssa.Function, args []Value) Value {
		want := ex.argString(args[0])
		iv, _ := ex.ghost["captured"].(*IfaceV)
		if iv == nil || iv.Typ == nil {
			panic(unsupported("vfCapturedU64: nothing captured"))
		}
		var find func(t types.Type, v Value) *Term
		find = func(t types.Type, v Value) *Term {
			if p, ok := t.Underlying().(*types.Pointer); ok {
				pv := v.(*Ptr)
				return find(p.Elem(), getAt(pv.Obj.Val, pv.Path))
			}
			st, ok := t.Underlying().(*types.Struct)
			if !ok {
				return nil
			}
			tv := v.(TupleV)
			for i := 0; i < st.NumFields(); i++ {
				f := st.Field(i)
				tag := reflectTagJSON(st.Tag(i))
				if tag == want || (tag == "" && f.Name() == want) {
					if x, ok := tv[i].(*Term); ok {
						return ZExt(x, 64)
					}
				}
				if f.Embedded() {
					if r := find(f.Type(), tv[i]); r != nil {
						return r
					}
				}
			}
			return nil
		}
		r := find(iv.Typ, iv.Val)
		if r == nil {
			panic(unsupported("vfCapturedU64: no field " + want + " in " + iv.Typ.String()))
		}
		return r
	}
	// *net.TCPConn as handed to the TCP relay: only the remote address and Close are used
	regStub("(*net.conn).RemoteAddr", func(ex *Exec, fn *ssa.Function, args []Value) Value {
		t := ex.namedType("net", "TCPAddr")
		o := ex.newCells(t, ex.zero(t), "tcpaddr")
		return &IfaceV{Typ: types.NewPointer(t), Val: &Ptr{Obj: o}}
	})
	regStub("(*net.TCPAddr).AddrPort", func(ex *Exec, fn *ssa.Function, args []Value) Value {
		np := ex.prog.ImportedPackage("net/netip")
		a4 := TupleV{BV(8, 127), BV(8, 0), BV(8, 0), BV(8, 1)}
		ip := ex.callFunction(np.Func("AddrFrom4"), []Value{a4}, nil, nil)
		return ex.callFunction(np.Func("AddrPortFrom"), []Value{ip, BV(16, 40000)}, nil, nil)
	})
	regStub("(*net.conn).Close", func(ex *Exec, fn *ssa.Function, args []Value) Value {
		if ex.isGhostSock(args[0]) {
			return udpConnClose(ex, fn, args)
		}
		return &IfaceV{}
	})
	// name resolution from the harness table
	suffixStubs["vfSetResolve"] = func(ex *Exec, fn *ssa.Function, args []Value) Value {
		ex.ghost["resolve:"+ex.argString(args[0])] = args[1]
		return nil
	}
	regStub("(*net.Resolver).LookupNetIP", func(ex *Exec, fn *ssa.Function, args []Value) Value {
		host := ex.argString(args[3])
		st := fn.Signature.Results().At(0).Type()
		a4, ok := ex.ghost["resolve:"+host].(TupleV)
		if !ok {
			return TupleV{ex.zero(st), ex.cachedError("lookup " + host + ": no such host")}
		}
		ex.sched.point() // a lookup takes time: other goroutines may run
		np := ex.prog.ImportedPackage("net/netip")
		ip := ex.callFunction(np.Func("AddrFrom4"), []Value{copyValue(a4)}, nil, nil)
		et := st.Underlying().(*types.Slice).Elem()
		o := ex.newCells(types.NewArray(et, 1), TupleV{ip}, "ips")
		return TupleV{&SliceV{Obj: o, Off: BV(64, 0), Len: BV(64, 1), Cap: BV(64, 1)}, &IfaceV{}}
	})
	suffixStubs["vfStorePath"] = func(ex *Exec, fn *ssa.Function, args []Value) Value {
		return ex.stringValue("/vf/store.json")
	}
}

func (ex *Exec) ifaceSliceElemsAny(v Value) []Value {
	s := v.(*SliceV)
	if s.Obj == nil {
		return nil
	}
	n, ok := s.Len.ConstVal()
	if !ok {
		panic(unsupported("slice of symbolic length"))
	}
	out := make([]Value, n)
	for i := range out {
		out[i] = ex.readElem(s, BV(64, uint64(i)))
	}
	return out
}

// reflectTagJSON extracts the name part of a `json:"name,opts"` struct tag.
func reflectTagJSON(tag string) string {
	const k = `json:"`
	for i := 0; i+len(k) <= len(tag); i++ {
		if tag[i:i+len(k)] == k {
			rest := tag[i+len(k):]
			for j := 0; j < len(rest); j++ {
				if rest[j] == ',' || rest[j] == '"' {
					return rest[:j]
				}
			}
		}
	}
	return ""
}

package main

// One long-lived `z3 -in` process.  Terms are emitted once as global define-funs; a query is a
// check-sat-assuming over the names of the path-condition conjuncts plus the goal literal.

import (
	"bufio"
	"fmt"
	"io"
	"os"
	"os/exec"
	"sort"
	"strconv"
	"strings"
	"time"
)

type Result int

const (
	Unsat Result = iota
	Sat
	Unknown
)

func (r Result) String() string { return [...]string{"unsat", "sat", "unknown"}[r] }

type Solver struct {
	cmd      *exec.Cmd
	in       io.WriteCloser
	out      *bufio.Reader
	defined  map[*Term]bool
	declared map[string]bool
	cache    map[string]Result
	log      *os.File
	bin      string

	Queries    int
	CacheHits  int
	Seconds    float64
	Unknowns   int
	Errors     []string
	TimeoutMS  int
	constArrs  map[string][]byte
	arrDeclare map[string]bool
}

func NewSolver(bin string, timeoutMS int, logPath string) (*Solver, error) {
	s := &Solver{defined: map[*Term]bool{}, declared: map[string]bool{}, cache: map[string]Result{}, TimeoutMS: timeoutMS, bin: bin,
		constArrs: map[string][]byte{}, arrDeclare: map[string]bool{}}
	if logPath != "" {
		f, err := os.Create(logPath)
		if err != nil {
			return nil, err
		}
		s.log = f
	}
	if err := s.start(); err != nil {
		return nil, err
	}
	return s, nil
}

func (s *Solver) start() error {
	args := []string{"-in"}
	if strings.Contains(s.bin, "cvc5") {
		args = []string{"--incremental", "--lang=smt2", "--produce-models", fmt.Sprintf("--tlimit-per=%d", s.TimeoutMS)}
	}
	s.cmd = exec.Command(s.bin, args...)
	in, err := s.cmd.StdinPipe()
	if err != nil {
		return err
	}
	out, err := s.cmd.StdoutPipe()
	if err != nil {
		return err
	}
	s.cmd.Stderr = os.Stderr
	if err := s.cmd.Start(); err != nil {
		return err
	}
	s.in = in
	s.out = bufio.NewReaderSize(out, 1<<20)
	if strings.Contains(s.bin, "cvc5") {
		s.send("(set-logic ALL)")
	} else {
		s.send("(set-option :produce-models true)")
		s.send(fmt.Sprintf("(set-option :timeout %d)", s.TimeoutMS))
	}
	return nil
}

func (s *Solver) Close() {
	if s.in != nil {
		s.send("(exit)")
		s.in.Close()
		s.cmd.Wait()
	}
	if s.log != nil {
		s.log.Close()
	}
}

func (s *Solver) send(line string) {
	if s.log != nil {
		fmt.Fprintln(s.log, line)
	}
	io.WriteString(s.in, line)
	io.WriteString(s.in, "\n")
}

// RegisterConstArray makes the content of a constant byte array known to the solver.
func (s *Solver) RegisterConstArray(name string, data []byte) { s.constArrs[name] = data }

func (s *Solver) ref(t *Term) string {
	switch t.Op {
	case OpConst, OpBConst, OpVar, OpBVar:
		return smtHead(t, nil)
	}
	if t.Op == OpUF && len(t.Args) == 0 {
		return smtName(t.Name)
	}
	return "t" + strconv.Itoa(t.ID)
}

// define emits declarations/definitions for t and everything below it (iteratively, post-order).
func (s *Solver) define(root *Term) {
	type fr struct {
		t *Term
		i int
	}
	stack := []fr{{root, 0}}
	for len(stack) > 0 {
		f := &stack[len(stack)-1]
		t := f.t
		if s.defined[t] {
			stack = stack[:len(stack)-1]
			continue
		}
		if f.i < len(t.Args) {
			a := t.Args[f.i]
			f.i++
			if !s.defined[a] {
				stack = append(stack, fr{a, 0})
			}
			continue
		}
		stack = stack[:len(stack)-1]
		s.defined[t] = true
		switch t.Op {
		case OpConst, OpBConst:
		case OpVar, OpBVar:
			if !s.declared[t.Name] {
				s.declared[t.Name] = true
				s.send(fmt.Sprintf("(declare-const %s %s)", smtName(t.Name), sortOf(t.W)))
			}
		case OpSelect:
			if !s.arrDeclare[t.Name] {
				s.arrDeclare[t.Name] = true
				s.send(fmt.Sprintf("(declare-const %s (Array (_ BitVec 64) (_ BitVec 8)))", smtName(t.Name)))
				if data, ok := s.constArrs[t.Name]; ok {
					for i, b := range data {
						s.send(fmt.Sprintf("(assert (= (select %s %s) %s))", smtName(t.Name), bvLit(64, uint64(i)), bvLit(8, uint64(b))))
					}
				}
			}
			s.send(fmt.Sprintf("(define-fun t%d () %s %s)", t.ID, sortOf(t.W), smtHead(t, s.ref)))
		case OpUF:
			key := "uf:" + t.Name
			if !s.declared[key] {
				s.declared[key] = true
				var sb strings.Builder
				for _, a := range t.Args {
					sb.WriteString(sortOf(a.W) + " ")
				}
				s.send(fmt.Sprintf("(declare-fun %s (%s) %s)", smtName(t.Name), sb.String(), sortOf(t.W)))
			}
			if len(t.Args) > 0 {
				s.send(fmt.Sprintf("(define-fun t%d () %s %s)", t.ID, sortOf(t.W), smtHead(t, s.ref)))
			}
		default:
			s.send(fmt.Sprintf("(define-fun t%d () %s %s)", t.ID, sortOf(t.W), smtHead(t, s.ref)))
		}
	}
}

func (s *Solver) readLine() (string, error) {
	line, err := s.out.ReadString('\n')
	return strings.TrimSpace(line), err
}

// readSexp reads one complete s-expression (possibly spanning lines) or an atom line.
func (s *Solver) readSexp() (string, error) {
	var sb strings.Builder
	depth := 0
	started := false
	inBar := false
	for {
		line, err := s.out.ReadString('\n')
		if err != nil && line == "" {
			return sb.String(), err
		}
		sb.WriteString(line)
		for _, c := range line {
			switch {
			case c == '|':
				inBar = !inBar
			case inBar:
			case c == '(':
				depth++
				started = true
			case c == ')':
				depth--
			}
		}
		if strings.TrimSpace(sb.String()) == "" {
			continue
		}
		if !started || depth <= 0 {
			return strings.TrimSpace(sb.String()), nil
		}
	}
}

// Check decides pc ∧ goal.  pc and goal are boolean terms.
func (s *Solver) Check(pc []*Term, goal *Term) Result {
	if goal == TFalse {
		return Unsat
	}
	lits := make([]*Term, 0, len(pc)+1)
	for _, p := range pc {
		if p == TTrue {
			continue
		}
		if p == TFalse {
			return Unsat
		}
		lits = append(lits, p)
	}
	if goal != TTrue {
		lits = append(lits, goal)
	}
	ids := make([]int, len(lits))
	for i, l := range lits {
		ids[i] = l.ID
	}
	sort.Ints(ids)
	var kb strings.Builder
	last := -1
	for _, id := range ids {
		if id != last {
			kb.WriteString(strconv.Itoa(id))
			kb.WriteByte(',')
		}
		last = id
	}
	key := kb.String()
	if r, ok := s.cache[key]; ok {
		s.CacheHits++
		return r
	}
	var names []string
	for _, l := range lits {
		s.define(l)
		names = append(names, s.litName(l))
	}
	t0 := time.Now()
	s.send("(check-sat-assuming (" + strings.Join(names, " ") + "))")
	line, err := s.readSexp()
	el := time.Since(t0).Seconds()
	s.Seconds += el
	s.Queries++
	var r Result
	switch {
	case err != nil:
		s.Errors = append(s.Errors, "solver died: "+err.Error())
		r = Unknown
		s.restart()
	case line == "sat":
		r = Sat
	case line == "unsat":
		r = Unsat
	case line == "unknown" || line == "timeout":
		r = Unknown
		s.Unknowns++
	default:
		s.Errors = append(s.Errors, line)
		r = Unknown
		s.Unknowns++
	}
	if s.log != nil {
		fmt.Fprintf(s.log, "; -> %s (%.3fs)\n", r, el)
	}
	s.cache[key] = r
	return r
}

func (s *Solver) restart() {
	s.cmd.Process.Kill()
	s.cmd.Wait()
	s.defined = map[*Term]bool{}
	s.declared = map[string]bool{}
	s.arrDeclare = map[string]bool{}
	if err := s.start(); err != nil {
		fatalf("cannot restart solver: %v", err)
	}
}

// litName: boolean atoms usable in check-sat-assuming must be symbols (or their negation).
func (s *Solver) litName(l *Term) string {
	switch l.Op {
	case OpBVar:
		return smtName(l.Name)
	case OpBNot:
		if l.Args[0].Op == OpBVar {
			return "(not " + smtName(l.Args[0].Name) + ")"
		}
	}
	key := "lit:" + strconv.Itoa(l.ID)
	name := "p" + strconv.Itoa(l.ID)
	if !s.declared[key] {
		s.declared[key] = true
		s.send(fmt.Sprintf("(declare-const %s Bool)", name))
		s.send(fmt.Sprintf("(assert (= %s %s))", name, s.ref(l)))
	}
	return name
}

// GetModel must be called right after a Check that returned Sat with the same pc/goal.
func (s *Solver) GetModel(pc []*Term, goal *Term) *Model {
	// force the solver back into the sat state of exactly this query (cache may have answered)
	var names []string
	all := append(append([]*Term{}, pc...), goal)
	for _, l := range all {
		if l == TTrue {
			continue
		}
		s.define(l)
		names = append(names, s.litName(l))
	}
	s.send("(check-sat-assuming (" + strings.Join(names, " ") + "))")
	line, _ := s.readSexp()
	if line != "sat" {
		return nil
	}
	m := &Model{Vars: map[string]uint64{}, Arrays: map[string]map[uint64]uint64{}, UFs: map[string]map[string]uint64{}}
	seen := map[*Term]bool{}
	var vars, sels, ufs []*Term
	for _, l := range all {
		collectLeaves(l, seen, func(t *Term) {
			switch t.Op {
			case OpVar, OpBVar:
				vars = append(vars, t)
			case OpSelect:
				sels = append(sels, t)
			case OpUF:
				ufs = append(ufs, t)
			}
		})
	}
	get := func(ts []*Term) []uint64 {
		out := make([]uint64, len(ts))
		for i := 0; i < len(ts); i += 200 {
			j := min(i+200, len(ts))
			var sb strings.Builder
			sb.WriteString("(get-value (")
			for _, t := range ts[i:j] {
				sb.WriteString(s.ref(t) + " ")
			}
			sb.WriteString("))")
			s.send(sb.String())
			resp, _ := s.readSexp()
			vals := parseGetValue(resp)
			if len(vals) != j-i {
				s.Errors = append(s.Errors, "get-value parse: "+resp)
				continue
			}
			copy(out[i:j], vals)
		}
		return out
	}
	vv := get(vars)
	for i, t := range vars {
		m.Vars[t.Name] = vv[i]
	}
	if len(sels) > 0 {
		idx := make([]*Term, len(sels))
		for i, t := range sels {
			idx[i] = t.Args[0]
		}
		iv := get(idx)
		sv := get(sels)
		for i, t := range sels {
			if m.Arrays[t.Name] == nil {
				m.Arrays[t.Name] = map[uint64]uint64{}
			}
			m.Arrays[t.Name][iv[i]] = sv[i]
		}
	}
	for _, t := range ufs {
		av := get(t.Args)
		rv := get([]*Term{t})
		var sb strings.Builder
		for i, a := range av {
			if i > 0 {
				sb.WriteByte(',')
			}
			fmt.Fprintf(&sb, "%d", a)
		}
		if m.UFs[t.Name] == nil {
			m.UFs[t.Name] = map[string]uint64{}
		}
		m.UFs[t.Name][sb.String()] = rv[0]
	}
	return m
}

// parseGetValue parses "((name val) (name val) ...)" and returns the values in order.
func parseGetValue(resp string) []uint64 {
	var out []uint64
	// tokenise
	var toks []string
	i := 0
	for i < len(resp) {
		c := resp[i]
		switch {
		case c == '(' || c == ')':
			toks = append(toks, string(c))
			i++
		case c == ' ' || c == '\n' || c == '\t' || c == '\r':
			i++
		case c == '|':
			j := strings.IndexByte(resp[i+1:], '|')
			if j < 0 {
				return nil
			}
			toks = append(toks, resp[i:i+j+2])
			i += j + 2
		default:
			j := i
			for j < len(resp) && !strings.ContainsRune("() \n\t\r", rune(resp[j])) {
				j++
			}
			toks = append(toks, resp[i:j])
			i = j
		}
	}
	// expect ( ( X V ) ( X V ) ... ) where X may itself be a parenthesised expr
	if len(toks) < 2 || toks[0] != "(" {
		return nil
	}
	p := 1
	skip := func() { // skip one sexp
		if toks[p] != "(" {
			p++
			return
		}
		d := 0
		for {
			if toks[p] == "(" {
				d++
			} else if toks[p] == ")" {
				d--
			}
			p++
			if d == 0 {
				return
			}
		}
	}
	for p < len(toks) && toks[p] == "(" {
		p++
		skip() // the expression
		// the value
		v := toks[p]
		switch {
		case v == "true":
			out = append(out, 1)
			p++
		case v == "false":
			out = append(out, 0)
			p++
		case strings.HasPrefix(v, "#x"):
			x, _ := strconv.ParseUint(v[2:], 16, 64)
			out = append(out, x)
			p++
		case strings.HasPrefix(v, "#b"):
			x, _ := strconv.ParseUint(v[2:], 2, 64)
			out = append(out, x)
			p++
		case v == "(": // (_ bv123 64)
			if p+3 < len(toks) && toks[p+1] == "_" && strings.HasPrefix(toks[p+2], "bv") {
				x, _ := strconv.ParseUint(toks[p+2][2:], 10, 64)
				out = append(out, x)
			} else {
				out = append(out, 0)
			}
			skip()
		default:
			out = append(out, 0)
			p++
		}
		if p < len(toks) && toks[p] == ")" {
			p++
		}
	}
	return out
}

// Script renders a standalone SMT-LIB2 script for (pc ∧ goal), for the second-solver diff.
func Script(pc []*Term, goal *Term, constArrs map[string][]byte) string {
	var sb strings.Builder
	sb.WriteString("(set-logic ALL)\n")
	defined := map[*Term]bool{}
	declared := map[string]bool{}
	var ref func(t *Term) string
	ref = func(t *Term) string {
		switch t.Op {
		case OpConst, OpBConst, OpVar, OpBVar:
			return smtHead(t, nil)
		}
		if t.Op == OpUF && len(t.Args) == 0 {
			return smtName(t.Name)
		}
		return "t" + strconv.Itoa(t.ID)
	}
	var def func(t *Term)
	def = func(t *Term) {
		if defined[t] {
			return
		}
		defined[t] = true
		for _, a := range t.Args {
			def(a)
		}
		switch t.Op {
		case OpConst, OpBConst:
		case OpVar, OpBVar:
			if !declared[t.Name] {
				declared[t.Name] = true
				fmt.Fprintf(&sb, "(declare-const %s %s)\n", smtName(t.Name), sortOf(t.W))
			}
		case OpSelect:
			if !declared["a:"+t.Name] {
				declared["a:"+t.Name] = true
				fmt.Fprintf(&sb, "(declare-const %s (Array (_ BitVec 64) (_ BitVec 8)))\n", smtName(t.Name))
				for i, b := range constArrs[t.Name] {
					fmt.Fprintf(&sb, "(assert (= (select %s %s) %s))\n", smtName(t.Name), bvLit(64, uint64(i)), bvLit(8, uint64(b)))
				}
			}
			fmt.Fprintf(&sb, "(define-fun t%d () %s %s)\n", t.ID, sortOf(t.W), smtHead(t, ref))
		case OpUF:
			if !declared["uf:"+t.Name] {
				declared["uf:"+t.Name] = true
				var as strings.Builder
				for _, a := range t.Args {
					as.WriteString(sortOf(a.W) + " ")
				}
				fmt.Fprintf(&sb, "(declare-fun %s (%s) %s)\n", smtName(t.Name), as.String(), sortOf(t.W))
			}
			if len(t.Args) > 0 {
				fmt.Fprintf(&sb, "(define-fun t%d () %s %s)\n", t.ID, sortOf(t.W), smtHead(t, ref))
			}
		default:
			fmt.Fprintf(&sb, "(define-fun t%d () %s %s)\n", t.ID, sortOf(t.W), smtHead(t, ref))
		}
	}
	for _, p := range append(append([]*Term{}, pc...), goal) {
		def(p)
		fmt.Fprintf(&sb, "(assert %s)\n", ref(p))
	}
	sb.WriteString("(check-sat)\n")
	return sb.String()
}

// RunScript runs a standalone script through another solver binary.
func RunScript(bin string, args []string, script string, timeout time.Duration) (Result, string) {
	cmd := exec.Command(bin, args...)
	cmd.Stdin = strings.NewReader(script)
	done := make(chan struct{})
	var out []byte
	var err error
	go func() { out, err = cmd.CombinedOutput(); close(done) }()
	select {
	case <-done:
	case <-time.After(timeout):
		if cmd.Process != nil {
			cmd.Process.Kill()
		}
		<-done
		return Unknown, "timeout"
	}
	_ = err
	txt := strings.TrimSpace(string(out))
	if strings.Contains(txt, "(error") {
		return Unknown, txt
	}
	switch {
	case strings.HasPrefix(txt, "unsat"):
		return Unsat, txt
	case strings.HasPrefix(txt, "sat"):
		return Sat, txt
	}
	return Unknown, txt
}

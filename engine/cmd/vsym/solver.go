package main

// One long-lived `z3 -in` process.  Every query is sent as a self-contained script after a
// (reset): z3's one-shot bit-vector tactic is far faster on these formulas than its incremental
// core.  Before the solver is asked, a query is sliced to the path-condition conjuncts that share
// symbols with the goal, then looked up in (1) the exact cache, (2) the known-unsat subsets,
// (3) recently returned models.

import (
	"bufio"
	"fmt"
	"io"
	"os"
	"os/exec"
	"sort"
	"strconv"
	"strings"
	"sync"
	"time"
)

type Result int

const (
	Unsat Result = iota
	Sat
	Unknown
)

func (r Result) String() string { return [...]string{"unsat", "sat", "unknown"}[r] }

type Solver struct {
	cmd  *exec.Cmd
	in   io.WriteCloser
	out  *bufio.Reader
	log  *os.File
	bin  string
	cvc5 bool

	cache     map[string]Result
	unsatSets [][]*Term
	models    []*cachedModel
	lastModel *Model
	wantModel bool
	constArrs map[string][]byte
	symMemo   map[*Term][]int32
	symIDs    map[string]int32
	slowN     int
	// cross-check: every XEvery-th decided query is re-decided by a solver of the other family
	XEvery int
	X      DiffResult

	Queries   int
	CacheHits int
	CoreHits  int
	ModelHits int
	Seconds   float64
	Unknowns  int
	Errors    []string
	TimeoutMS int

	Winners    map[string]int
	noRace     bool
	inTier1    bool
	Tier1Hits  int
	scalarMemo map[*Term]bool
	raceDelay  time.Duration
}

type cachedModel struct {
	m    *Model
	memo map[*Term]uint64
}

func NewSolver(bin string, timeoutMS int, logPath string) (*Solver, error) {
	s := &Solver{cache: map[string]Result{}, TimeoutMS: timeoutMS, bin: bin, cvc5: strings.Contains(bin, "cvc5"),
		constArrs: map[string][]byte{}, symMemo: map[*Term][]int32{}, symIDs: map[string]int32{}, Winners: map[string]int{}}
	s.raceDelay = 50 * time.Millisecond
	if d := os.Getenv("VSYM_RACE_DELAY_MS"); d != "" {
		var ms int
		fmt.Sscanf(d, "%d", &ms)
		s.raceDelay = time.Duration(ms) * time.Millisecond
	}
	if os.Getenv("VSYM_NORACE") != "" {
		s.noRace = true
	}
	if logPath != "" {
		f, err := os.Create(logPath)
		if err != nil {
			return nil, err
		}
		s.log = f
	}
	if err := s.start(); err != nil {
		return nil, err
	}
	return s, nil
}

func (s *Solver) start() error {
	args := []string{"-in"}
	if s.cvc5 {
		args = []string{"--incremental", "--lang=smt2", "--produce-models", fmt.Sprintf("--tlimit-per=%d", s.TimeoutMS)}
	}
	s.cmd = exec.Command(s.bin, args...)
	in, err := s.cmd.StdinPipe()
	if err != nil {
		return err
	}
	out, err := s.cmd.StdoutPipe()
	if err != nil {
		return err
	}
	s.cmd.Stderr = os.Stderr
	if err := s.cmd.Start(); err != nil {
		return err
	}
	s.in = in
	s.out = bufio.NewReaderSize(out, 1<<20)
	return nil
}

func (s *Solver) Close() {
	if s.in != nil {
		s.send("(exit)")
		s.in.Close()
		s.cmd.Wait()
	}
	if s.log != nil {
		s.log.Close()
	}
}

func (s *Solver) send(line string) {
	if s.log != nil {
		fmt.Fprintln(s.log, line)
	}
	io.WriteString(s.in, line)
	io.WriteString(s.in, "\n")
}

// RegisterConstArray makes the content of a constant byte array known to the solver.
func (s *Solver) RegisterConstArray(name string, data []byte) { s.constArrs[name] = data }

func termRef(t *Term) string {
	switch t.Op {
	case OpConst, OpBConst, OpVar, OpBVar:
		return smtHead(t, nil)
	}
	if t.Op == OpUF && len(t.Args) == 0 {
		return smtName(t.Name)
	}
	return "t" + strconv.Itoa(t.ID)
}

// readSexp reads one complete s-expression (possibly spanning lines) or an atom line.
func (s *Solver) readSexp() (string, error) {
	var sb strings.Builder
	depth := 0
	started := false
	inBar := false
	for {
		line, err := s.out.ReadString('\n')
		if err != nil && line == "" {
			return sb.String(), err
		}
		sb.WriteString(line)
		for _, c := range line {
			switch {
			case c == '|':
				inBar = !inBar
			case inBar:
			case c == '(':
				depth++
				started = true
			case c == ')':
				depth--
			}
		}
		if strings.TrimSpace(sb.String()) == "" {
			continue
		}
		if !started || depth <= 0 {
			return strings.TrimSpace(sb.String()), nil
		}
	}
}

// symbols returns the sorted ids of the free symbols (variables, arrays, UFs) of t.
func (s *Solver) symbols(t *Term) []int32 {
	if r, ok := s.symMemo[t]; ok {
		return r
	}
	var r []int32
	id := func(k string) int32 {
		v, ok := s.symIDs[k]
		if !ok {
			v = int32(len(s.symIDs) + 1)
			s.symIDs[k] = v
		}
		return v
	}
	switch t.Op {
	case OpConst, OpBConst:
	case OpVar, OpBVar:
		r = []int32{id("v:" + t.Name)}
	default:
		set := map[int32]bool{}
		if t.Op == OpSelect {
			set[id("a:"+t.Name)] = true
		}
		if t.Op == OpUF {
			set[id("f:"+t.Name)] = true
		}
		for _, a := range t.Args {
			for _, x := range s.symbols(a) {
				set[x] = true
			}
		}
		r = make([]int32, 0, len(set))
		for x := range set {
			r = append(r, x)
		}
		sort.Slice(r, func(i, j int) bool { return r[i] < r[j] })
	}
	s.symMemo[t] = r
	return r
}

// scalarOnly reports whether t mentions neither arrays nor uninterpreted functions.
func (s *Solver) scalarOnly(t *Term) bool {
	if v, ok := s.scalarMemo[t]; ok {
		return v
	}
	r := t.Op != OpSelect && t.Op != OpUF
	if r {
		for _, a := range t.Args {
			if !s.scalarOnly(a) {
				r = false
				break
			}
		}
	}
	if s.scalarMemo == nil {
		s.scalarMemo = map[*Term]bool{}
	}
	s.scalarMemo[t] = r
	return r
}

// slice keeps the conjuncts of pc that are (transitively) connected to goal through shared symbols.
func (s *Solver) slice(pc []*Term, goal *Term) []*Term {
	if len(pc) == 0 {
		return nil
	}
	live := map[int32]bool{}
	for _, x := range s.symbols(goal) {
		live[x] = true
	}
	used := make([]bool, len(pc))
	changed := true
	for changed {
		changed = false
		for i, p := range pc {
			if used[i] {
				continue
			}
			syms := s.symbols(p)
			hit := len(syms) == 0
			for _, x := range syms {
				if live[x] {
					hit = true
					break
				}
			}
			if hit {
				used[i] = true
				changed = true
				for _, x := range syms {
					live[x] = true
				}
			}
		}
	}
	out := make([]*Term, 0, len(pc))
	for i, p := range pc {
		if used[i] {
			out = append(out, p)
		}
	}
	return out
}

func dedupeLits(pc []*Term, goal *Term) ([]*Term, map[*Term]bool, bool) {
	lits := make([]*Term, 0, len(pc)+1)
	seen := make(map[*Term]bool, len(pc)+1)
	add := func(p *Term) bool {
		if p == TTrue || seen[p] {
			return true
		}
		if p == TFalse || seen[Not(p)] {
			return false
		}
		seen[p] = true
		lits = append(lits, p)
		return true
	}
	for _, p := range pc {
		if !add(p) {
			return nil, nil, false
		}
	}
	if !add(goal) {
		return nil, nil, false
	}
	return lits, seen, true
}

// Check decides pc ∧ goal (pc is assumed satisfiable on its own).
func (s *Solver) Check(pc []*Term, goal *Term) Result {
	return s.check(pc, goal, true)
}

func (s *Solver) check(pc []*Term, goal *Term, doSlice bool) Result {
	if goal == TFalse {
		return Unsat
	}
	if doSlice && goal != TTrue {
		pc = s.slice(pc, goal)
		// tier 1: an unsat proof from the scalar conjuncts alone (no arrays, no uninterpreted
		// functions) is sound and far cheaper; anything else falls through to the full query
		if !s.inTier1 && s.scalarOnly(goal) {
			var sc []*Term
			for _, p := range pc {
				if s.scalarOnly(p) {
					sc = append(sc, p)
				}
			}
			if len(sc) < len(pc) {
				s.inTier1 = true
				sc = s.slice(sc, goal)
				r := s.check(sc, goal, false)
				s.inTier1 = false
				if r == Unsat {
					s.Tier1Hits++
					return Unsat
				}
			}
		}
	}
	lits, seen, ok := dedupeLits(pc, goal)
	if !ok {
		return Unsat
	}
	if len(lits) == 0 {
		if s.wantModel {
			s.lastModel = &Model{Vars: map[string]uint64{}, Arrays: map[string]map[uint64]uint64{}, UFs: map[string]map[string]uint64{}, ConstArrs: s.constArrs}
		}
		return Sat
	}
	ids := make([]int, len(lits))
	for i, l := range lits {
		ids[i] = l.ID
	}
	sort.Ints(ids)
	var kb strings.Builder
	for _, id := range ids {
		kb.WriteString(strconv.Itoa(id))
		kb.WriteByte(',')
	}
	key := kb.String()
	if r, ok := s.cache[key]; ok {
		if r != Sat || !s.wantModel {
			s.CacheHits++
			return r
		}
	}
	for _, us := range s.unsatSets {
		if len(us) > len(lits) {
			continue
		}
		sub := true
		for _, c := range us {
			if !seen[c] {
				sub = false
				break
			}
		}
		if sub {
			s.CoreHits++
			s.cache[key] = Unsat
			return Unsat
		}
	}
	for i := len(s.models) - 1; i >= 0; i-- {
		m := s.models[i]
		okm := true
		for j := len(lits) - 1; j >= 0; j-- {
			if m.m.eval(lits[j], m.memo) == 0 {
				okm = false
				break
			}
		}
		if okm {
			s.ModelHits++
			s.cache[key] = Sat
			s.lastModel = m.m
			s.models = append(append(s.models[:i:i], s.models[i+1:]...), m)
			return Sat
		}
	}
	t0 := time.Now()
	body := scriptBody(lits, s.constArrs)
	gv, plan := modelPlan(lits)
	r, resp, who, err := s.race(body, gv, len(plan.cmdSizes))
	el := time.Since(t0).Seconds()
	s.Seconds += el
	s.Queries++
	s.Winners[who]++
	if err != nil {
		s.Errors = append(s.Errors, err.Error())
	}
	if r == Unknown {
		s.Unknowns++
	}
	if s.log != nil {
		fmt.Fprintf(s.log, "; -> %s (%.3fs)\n", r, el)
	}
	if r != Unknown && s.XEvery > 0 && (s.Queries-1)%s.XEvery == 0 {
		if r2 := s.crossCheck(lits, r, who); r2 != Unknown && r2 != r {
			s.Errors = append(s.Errors, fmt.Sprintf("solver disagreement: %s said %s, the cross-checking solver said %s", who, r, r2))
			r = Unknown
		}
	}
	s.cache[key] = r
	if d := os.Getenv("VSYM_DUMP_SLOW"); d != "" && el > 3 {
		s.slowN++
		os.WriteFile(fmt.Sprintf("%s/slow_%d_%s_%.0fs.smt2", d, s.slowN, r, el), []byte(Script(lits[:len(lits)-1], lits[len(lits)-1], s.constArrs)), 0o644)
	}
	switch r {
	case Unsat:
		s.unsatSets = append(s.unsatSets, lits)
		if len(s.unsatSets) > 3000 {
			s.unsatSets = s.unsatSets[1000:]
		}
	case Sat:
		if m := plan.build(resp, s.constArrs); m != nil {
			s.lastModel = m
			s.models = append(s.models, &cachedModel{m: m, memo: map[*Term]uint64{}})
			if len(s.models) > 16 {
				s.models = s.models[1:]
			}
		}
	}
	return r
}

// crossCheck re-decides a query with a solver of the other family (z3 <-> cvc5).
func (s *Solver) crossCheck(lits []*Term, r Result, who string) Result {
	script := Script(lits[:len(lits)-1], lits[len(lits)-1], s.constArrs)
	t0 := time.Now()
	var r2 Result
	if strings.HasPrefix(who, "cvc5") {
		s.X.Solver = "z3-new/cvc5"
		r2, _ = RunScript("z3-new", []string{"-in", "-T:20"}, script, 25*time.Second)
	} else {
		s.X.Solver = "z3-new/cvc5"
		r2, _ = RunScript("cvc5", []string{"--lang=smt2", "--tlimit=20000"}, script, 25*time.Second)
		if r2 == Unknown {
			r2, _ = RunScript("cvc5", []string{"--lang=smt2", "--solve-bv-as-int=sum", "--tlimit=20000"}, script, 25*time.Second)
		}
	}
	s.X.Seconds += time.Since(t0).Seconds()
	s.X.Checked++
	switch {
	case r2 == Unknown:
		s.X.Unknown++
	case r2 == r:
		s.X.Agree++
	default:
		s.X.Disagree++
		if d := os.Getenv("VSYM_DUMP_SLOW"); d != "" {
			os.WriteFile(fmt.Sprintf("%s/disagree_%d.smt2", d, s.X.Disagree), []byte(script), 0o644)
		}
	}
	return r2
}

func (s *Solver) restart() {
	s.cmd.Process.Kill()
	s.cmd.Wait()
	if err := s.start(); err != nil {
		fatalf("cannot restart solver: %v", err)
	}
}

// GetModel returns a model of the whole of pc ∧ goal (which must be satisfiable).
func (s *Solver) GetModel(pc []*Term, goal *Term) *Model {
	s.lastModel = nil
	s.wantModel = true
	r := s.check(pc, goal, false)
	s.wantModel = false
	if r != Sat {
		return nil
	}
	return s.lastModel
}

// parseGetValue parses "((name val) (name val) ...)" and returns the values in order.
func parseGetValue(resp string) []uint64 {
	var out []uint64
	var toks []string
	i := 0
	for i < len(resp) {
		c := resp[i]
		switch {
		case c == '(' || c == ')':
			toks = append(toks, string(c))
			i++
		case c == ' ' || c == '\n' || c == '\t' || c == '\r':
			i++
		case c == '|':
			j := strings.IndexByte(resp[i+1:], '|')
			if j < 0 {
				return nil
			}
			toks = append(toks, resp[i:i+j+2])
			i += j + 2
		default:
			j := i
			for j < len(resp) && !strings.ContainsRune("() \n\t\r", rune(resp[j])) {
				j++
			}
			toks = append(toks, resp[i:j])
			i = j
		}
	}
	if len(toks) < 2 || toks[0] != "(" {
		return nil
	}
	p := 1
	skip := func() {
		if toks[p] != "(" {
			p++
			return
		}
		d := 0
		for {
			if toks[p] == "(" {
				d++
			} else if toks[p] == ")" {
				d--
			}
			p++
			if d == 0 {
				return
			}
		}
	}
	for p < len(toks) && toks[p] == "(" {
		p++
		skip() // the expression
		v := toks[p]
		switch {
		case v == "true":
			out = append(out, 1)
			p++
		case v == "false":
			out = append(out, 0)
			p++
		case strings.HasPrefix(v, "#x"):
			x, _ := strconv.ParseUint(v[2:], 16, 64)
			out = append(out, x)
			p++
		case strings.HasPrefix(v, "#b"):
			x, _ := strconv.ParseUint(v[2:], 2, 64)
			out = append(out, x)
			p++
		case v == "(": // (_ bv123 64)
			if p+3 < len(toks) && toks[p+1] == "_" && strings.HasPrefix(toks[p+2], "bv") {
				x, _ := strconv.ParseUint(toks[p+2][2:], 10, 64)
				out = append(out, x)
			} else {
				out = append(out, 0)
			}
			skip()
		default:
			out = append(out, 0)
			p++
		}
		if p < len(toks) && toks[p] == ")" {
			p++
		}
	}
	return out
}

// scriptBody renders declarations, definitions and one assert per literal.
func scriptBody(lits []*Term, constArrs map[string][]byte) string {
	var sb strings.Builder
	defined := map[*Term]bool{}
	declared := map[string]bool{}
	type fr struct {
		t *Term
		i int
	}
	emit := func(t *Term) {
		switch t.Op {
		case OpConst, OpBConst:
		case OpVar, OpBVar:
			if !declared[t.Name] {
				declared[t.Name] = true
				fmt.Fprintf(&sb, "(declare-const %s %s)\n", smtName(t.Name), sortOf(t.W))
			}
		case OpSelect:
			if !declared["a:"+t.Name] {
				declared["a:"+t.Name] = true
				fmt.Fprintf(&sb, "(declare-const %s (Array (_ BitVec 64) (_ BitVec 8)))\n", smtName(t.Name))
				for i, b := range constArrs[t.Name] {
					fmt.Fprintf(&sb, "(assert (= (select %s %s) %s))\n", smtName(t.Name), bvLit(64, uint64(i)), bvLit(8, uint64(b)))
				}
			}
			fmt.Fprintf(&sb, "(define-fun t%d () %s %s)\n", t.ID, sortOf(t.W), smtHead(t, termRef))
		case OpUF:
			if !declared["uf:"+t.Name] {
				declared["uf:"+t.Name] = true
				var as strings.Builder
				for _, a := range t.Args {
					as.WriteString(sortOf(a.W) + " ")
				}
				fmt.Fprintf(&sb, "(declare-fun %s (%s) %s)\n", smtName(t.Name), as.String(), sortOf(t.W))
			}
			if len(t.Args) > 0 {
				fmt.Fprintf(&sb, "(define-fun t%d () %s %s)\n", t.ID, sortOf(t.W), smtHead(t, termRef))
			}
		default:
			fmt.Fprintf(&sb, "(define-fun t%d () %s %s)\n", t.ID, sortOf(t.W), smtHead(t, termRef))
		}
	}
	for _, root := range lits {
		stack := []fr{{root, 0}}
		for len(stack) > 0 {
			f := &stack[len(stack)-1]
			t := f.t
			if defined[t] {
				stack = stack[:len(stack)-1]
				continue
			}
			if f.i < len(t.Args) {
				a := t.Args[f.i]
				f.i++
				if !defined[a] {
					stack = append(stack, fr{a, 0})
				}
				continue
			}
			stack = stack[:len(stack)-1]
			defined[t] = true
			emit(t)
		}
		fmt.Fprintf(&sb, "(assert %s)\n", termRef(root))
	}
	return sb.String()
}

// Script renders a standalone SMT-LIB2 script for (pc ∧ goal), for the second-solver diff.
func Script(pc []*Term, goal *Term, constArrs map[string][]byte) string {
	lits := append(append([]*Term{}, pc...), goal)
	return "(set-logic ALL)\n" + scriptBody(lits, constArrs) + "(check-sat)\n"
}

// RunScript runs a standalone script through another solver binary.
func RunScript(bin string, args []string, script string, timeout time.Duration) (Result, string) {
	cmd := exec.Command(bin, args...)
	cmd.Stdin = strings.NewReader(script)
	done := make(chan struct{})
	var out []byte
	go func() { out, _ = cmd.CombinedOutput(); close(done) }()
	select {
	case <-done:
	case <-time.After(timeout):
		if cmd.Process != nil {
			cmd.Process.Kill()
		}
		<-done
		return Unknown, "timeout"
	}
	txt := strings.TrimSpace(string(out))
	if strings.Contains(txt, "(error") {
		return Unknown, txt
	}
	switch {
	case strings.HasPrefix(txt, "unsat"):
		return Unsat, txt
	case strings.HasPrefix(txt, "sat"):
		return Sat, txt
	}
	return Unknown, txt
}

// ---------------------------------------------------------------- model extraction plan

type modelPlanT struct {
	vars, sels, ufs []*Term
	cmdSizes        []int // number of terms in each get-value command
}

// modelPlan lists the leaves below lits and renders the get-value commands that read them.
func modelPlan(lits []*Term) (string, *modelPlanT) {
	p := &modelPlanT{}
	seen := map[*Term]bool{}
	for _, l := range lits {
		collectLeaves(l, seen, func(t *Term) {
			switch t.Op {
			case OpVar, OpBVar:
				p.vars = append(p.vars, t)
			case OpSelect:
				p.sels = append(p.sels, t)
			case OpUF:
				p.ufs = append(p.ufs, t)
			}
		})
	}
	var sb strings.Builder
	emit := func(ts []*Term) {
		for i := 0; i < len(ts); i += 200 {
			j := min(i+200, len(ts))
			sb.WriteString("(get-value (")
			for _, t := range ts[i:j] {
				sb.WriteString(termRef(t) + " ")
			}
			sb.WriteString("))\n")
			p.cmdSizes = append(p.cmdSizes, j-i)
		}
	}
	emit(p.vars)
	idx := make([]*Term, len(p.sels))
	for i, t := range p.sels {
		idx[i] = t.Args[0]
	}
	emit(idx)
	emit(p.sels)
	for _, t := range p.ufs {
		if len(t.Args) > 0 {
			emit(t.Args)
		}
		emit([]*Term{t})
	}
	return sb.String(), p
}

// build turns the get-value responses (one per command, in order) into a model.
func (p *modelPlanT) build(resp []string, constArrs map[string][]byte) *Model {
	if len(resp) != len(p.cmdSizes) {
		return nil
	}
	var vals []uint64
	for i, r := range resp {
		v := parseGetValue(r)
		if len(v) != p.cmdSizes[i] {
			return nil
		}
		vals = append(vals, v...)
	}
	m := &Model{Vars: map[string]uint64{}, Arrays: map[string]map[uint64]uint64{}, UFs: map[string]map[string]uint64{}, ConstArrs: constArrs}
	k := 0
	for _, t := range p.vars {
		m.Vars[t.Name] = vals[k]
		k++
	}
	iv := vals[k : k+len(p.sels)]
	k += len(p.sels)
	sv := vals[k : k+len(p.sels)]
	k += len(p.sels)
	for i, t := range p.sels {
		if m.Arrays[t.Name] == nil {
			m.Arrays[t.Name] = map[uint64]uint64{}
		}
		m.Arrays[t.Name][iv[i]] = sv[i]
	}
	for _, t := range p.ufs {
		var sb strings.Builder
		for i := range t.Args {
			if i > 0 {
				sb.WriteByte(',')
			}
			fmt.Fprintf(&sb, "%d", vals[k])
			k++
		}
		if m.UFs[t.Name] == nil {
			m.UFs[t.Name] = map[string]uint64{}
		}
		m.UFs[t.Name][sb.String()] = vals[k]
		k++
	}
	return m
}

// ---------------------------------------------------------------- racing portfolio

type raceRes struct {
	r    Result
	resp []string
	who  string
	err  error
}

// splitSexps splits solver output into top-level s-expressions / atoms.
func splitSexps(out string) []string {
	var res []string
	depth, start := 0, -1
	inBar := false
	for i, c := range out {
		switch {
		case c == '|':
			inBar = !inBar
			if start < 0 {
				start = i
			}
		case inBar:
		case c == '(':
			if depth == 0 && start < 0 {
				start = i
			}
			depth++
		case c == ')':
			depth--
			if depth == 0 && start >= 0 {
				res = append(res, out[start:i+1])
				start = -1
			}
		case c == ' ' || c == '\n' || c == '\t' || c == '\r':
			if depth == 0 && start >= 0 {
				res = append(res, out[start:i])
				start = -1
			}
		default:
			if start < 0 {
				start = i
			}
		}
	}
	if start >= 0 && depth == 0 {
		res = append(res, strings.TrimSpace(out[start:]))
	}
	return res
}

func parseStatus(tok string) (Result, bool) {
	switch tok {
	case "sat":
		return Sat, true
	case "unsat":
		return Unsat, true
	case "unknown", "timeout":
		return Unknown, true
	}
	return Unknown, false
}

// race runs the query on the persistent z3 and, if that does not answer quickly, on one-shot
// cvc5 processes with different strategies; the first definite answer wins.
func (s *Solver) race(body, getvals string, nGet int) (Result, []string, string, error) {
	ch := make(chan raceRes, 4)
	var procs []*exec.Cmd
	timeout := time.Duration(s.TimeoutMS) * time.Millisecond
	// racer 1: the persistent solver
	go func() {
		s.send("(reset)")
		if s.cvc5 {
			s.send("(set-logic ALL)")
		} else {
			s.send("(set-option :produce-models true)")
			s.send(fmt.Sprintf("(set-option :timeout %d)", s.TimeoutMS))
		}
		s.send(body)
		s.send("(check-sat)")
		line, err := s.readSexp()
		if err != nil {
			ch <- raceRes{Unknown, nil, s.bin, nil} // killed because another racer won, or died
			return
		}
		r, ok := parseStatus(line)
		if !ok {
			ch <- raceRes{Unknown, nil, s.bin, fmt.Errorf("solver said: %s", line)}
			return
		}
		var resp []string
		if r == Sat && nGet > 0 {
			s.send(getvals)
			for i := 0; i < nGet; i++ {
				x, err := s.readSexp()
				if err != nil {
					ch <- raceRes{Unknown, nil, s.bin, nil}
					return
				}
				resp = append(resp, x)
			}
		}
		ch <- raceRes{r, resp, s.bin, nil}
	}()
	stop := make(chan struct{})
	var mu sync.Mutex
	stopped := false
	oneShot := func(name, bin string, args []string, delay time.Duration) {
		go func() {
			select {
			case <-time.After(delay):
			case <-stop:
				ch <- raceRes{Unknown, nil, name, nil}
				return
			}
			cmd := exec.Command(bin, args...)
			cmd.Stdin = strings.NewReader("(set-logic ALL)\n(set-option :produce-models true)\n" + body + "(check-sat)\n" + getvals)
			mu.Lock()
			if stopped {
				mu.Unlock()
				ch <- raceRes{Unknown, nil, name, nil}
				return
			}
			procs = append(procs, cmd)
			mu.Unlock()
			out, _ := cmd.Output()
			toks := splitSexps(string(out))
			if len(toks) == 0 {
				ch <- raceRes{Unknown, nil, name, nil}
				return
			}
			r, ok := parseStatus(toks[0])
			if !ok {
				ch <- raceRes{Unknown, nil, name, nil}
				return
			}
			var resp []string
			if r == Sat {
				resp = toks[1:]
				if len(resp) != nGet {
					r = Unknown
				}
			}
			ch <- raceRes{r, resp, name, nil}
		}()
	}
	nRacers := 1
	tl := fmt.Sprintf("--tlimit=%d", s.TimeoutMS)
	if !s.noRace {
		oneShot("cvc5-int", "cvc5", []string{"--lang=smt2", "--solve-bv-as-int=sum", tl}, s.raceDelay)
		oneShot("cvc5", "cvc5", []string{"--lang=smt2", tl}, 1500*time.Millisecond)
		nRacers = 3
	}
	var best raceRes
	best.r = Unknown
	deadline := time.After(timeout + 5*time.Second)
	got := 0
	var firstErr error
	z3done := false
loop:
	for got < nRacers {
		select {
		case rr := <-ch:
			got++
			if rr.who == s.bin {
				z3done = true
			}
			if rr.err != nil && firstErr == nil {
				firstErr = rr.err
			}
			if rr.r != Unknown {
				best = rr
				break loop
			}
			if best.who == "" {
				best.who = rr.who
			}
		case <-deadline:
			break loop
		}
	}
	// stop the losers
	close(stop)
	mu.Lock()
	stopped = true
	for _, c := range procs {
		if c.Process != nil {
			c.Process.Kill()
		}
	}
	mu.Unlock()
	if !z3done {
		// the persistent solver is still busy: kill it (its goroutine ends on the read error) and start a new one
		s.cmd.Process.Kill()
		s.cmd.Wait()
		for !z3done {
			rr := <-ch
			if rr.who == s.bin {
				z3done = true
			}
		}
		if err := s.start(); err != nil {
			fatalf("cannot restart solver: %v", err)
		}
	}
	if best.who == "" {
		best.who = "none"
	}
	if best.r != Unknown {
		firstErr = nil
	}
	return best.r, best.resp, best.who, firstErr
}

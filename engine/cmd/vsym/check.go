package main

// Driver: `vsym check <ID> quick|thorough` runs the harness instances registered in
// checks/<ID>.json in parallel worker processes, replays every counterexample natively against the
// real code, and writes evidence/<ID>.json.

import (
	"crypto/sha256"
	"encoding/json"
	"fmt"
	"os"
	"os/exec"
	"path/filepath"
	"regexp"
	"sort"
	"strings"
	"sync"
	"time"
)

type JobSpec struct {
	Pkg      string             `json:"pkg"`
	Fn       string             `json:"fn"`
	Cases    []map[string]int64 `json:"cases,omitempty"`
	Unwind   int                `json:"unwind,omitempty"`
	Paths    int                `json:"paths,omitempty"`
	Steps    int                `json:"steps,omitempty"`
	Timeout  int                `json:"solver_timeout_ms,omitempty"`
	Reach    []string           `json:"reach,omitempty"`
	Budget   int                `json:"budget_s,omitempty"`
	Synctest bool               `json:"synctest,omitempty"`
	Weight   int                `json:"weight,omitempty"`
	Repeat   int                `json:"replay_repeat,omitempty"`
}

type CheckSpec struct {
	Property    string                 `json:"property"`
	Level       string                 `json:"level"`
	Assumptions []string               `json:"assumptions"`
	Outside     []string               `json:"outside_claim"`
	Bounds      map[string]interface{} `json:"bounds"`
	Quick       []JobSpec              `json:"quick"`
	Thorough    []JobSpec              `json:"thorough"`
}

type jobInst struct {
	spec JobSpec
	cs   map[string]int64
	res  *ExecResult
	err  string
	log  string
}

func caseString(cs map[string]int64) string {
	var keys []string
	for k := range cs {
		keys = append(keys, k)
	}
	sort.Strings(keys)
	var parts []string
	for _, k := range keys {
		parts = append(parts, fmt.Sprintf("%s=%d", k, cs[k]))
	}
	return strings.Join(parts, ";")
}

func cmdCheck(args []string) {
	if len(args) < 2 {
		fatalf("usage: vsym check <ID> quick|thorough")
	}
	id, tier := args[0], args[1]
	if t := os.Getenv("VERIF_TIER"); t != "" && len(args) < 2 {
		tier = t
	}
	seed := 0
	fmt.Sscanf(os.Getenv("VERIF_SEED"), "%d", &seed)
	t0 := time.Now()
	data, err := os.ReadFile(filepath.Join(verifDir, "checks", id+".json"))
	if err != nil {
		fatalf("%v", err)
	}
	var spec CheckSpec
	if err := json.Unmarshal(data, &spec); err != nil {
		fatalf("checks/%s.json: %v", id, err)
	}
	jobs := spec.Quick
	if tier == "thorough" {
		jobs = spec.Thorough
		if len(jobs) == 0 {
			jobs = spec.Quick
		}
	}
	// development aids: VSYM_ONLY=<substring> runs only the matching instances; with it, or with
	// VSYM_REPO (a scratch tree instead of /repo), the evidence goes to .work/ and not to evidence/
	only := os.Getenv("VSYM_ONLY")
	evidenceDir := filepath.Join(verifDir, "evidence")
	if only != "" || os.Getenv("VSYM_REPO") != "" {
		evidenceDir = filepath.Join(verifDir, ".work", "evidence-trial")
	}
	if d := os.Getenv("VSYM_EVIDENCE_DIR"); d != "" {
		evidenceDir = d // development runs that must not replace the committed evidence
	}
	var insts []*jobInst
	for _, j := range jobs {
		if len(j.Cases) == 0 {
			if only == "" || strings.Contains(j.Fn, only) {
				insts = append(insts, &jobInst{spec: j, cs: map[string]int64{}})
			}
		}
		for _, c := range j.Cases {
			if only == "" || strings.Contains(j.Fn+"@"+caseString(c), only) {
				insts = append(insts, &jobInst{spec: j, cs: c})
			}
		}
	}
	work := filepath.Join(verifDir, ".work", fmt.Sprintf("%s-%d", id, os.Getpid()))
	os.MkdirAll(work, 0o755)
	defer os.RemoveAll(work)
	os.MkdirAll(evidenceDir, 0o755)
	os.MkdirAll(filepath.Join(verifDir, "replays"), 0o755)

	self, _ := os.Executable()
	// group instances by package, then deal them round-robin to a few worker processes per package
	// (loading and type-checking the program dominates small jobs, so workers are shared)
	byPkg := map[string][]int{}
	var pkgOrder []string
	for k, in := range insts {
		if _, ok := byPkg[in.spec.Pkg]; !ok {
			pkgOrder = append(pkgOrder, in.spec.Pkg)
		}
		byPkg[in.spec.Pkg] = append(byPkg[in.spec.Pkg], k)
	}
	maxWorkers := 6
	if tier == "thorough" {
		maxWorkers = 8 // each worker races up to three solver processes; 16 cores
	}
	if w := os.Getenv("VSYM_WORKERS"); w != "" {
		fmt.Sscanf(w, "%d", &maxWorkers)
	}
	if len(pkgOrder) == 0 {
		fatalf("no harness instance selected (VSYM_ONLY=%q)", only)
	}
	perPkg := max(1, maxWorkers/len(pkgOrder))
	type workerT struct {
		pkg  string
		idxs []int
	}
	var workers []*workerT
	for _, p := range pkgOrder {
		idxs := byPkg[p]
		// heavier jobs first so that they land on different workers
		sort.SliceStable(idxs, func(a, b int) bool { return insts[idxs[a]].spec.Weight > insts[idxs[b]].spec.Weight })
		n := min(perPkg, len(idxs))
		ws := make([]*workerT, n)
		for i := range ws {
			ws[i] = &workerT{pkg: p}
		}
		for i, k := range idxs {
			ws[i%n].idxs = append(ws[i%n].idxs, k)
		}
		workers = append(workers, ws...)
	}
	var wg sync.WaitGroup
	for wi, w := range workers {
		wg.Add(1)
		go func(wi int, w *workerT) {
			defer wg.Done()
			type jobT struct {
				Fn      string           `json:"fn"`
				Case    map[string]int64 `json:"case"`
				Unwind  int              `json:"unwind"`
				Paths   int              `json:"paths"`
				Steps   int              `json:"steps"`
				Timeout int              `json:"timeout"`
				Out     string           `json:"out"`
			}
			var jl []jobT
			budget := 0
			for _, k := range w.idxs {
				in := insts[k]
				jl = append(jl, jobT{Fn: in.spec.Fn, Case: in.cs, Unwind: in.spec.Unwind, Paths: in.spec.Paths, Steps: in.spec.Steps, Timeout: in.spec.Timeout,
					Out: filepath.Join(work, fmt.Sprintf("res%d.json", k))})
				b := in.spec.Budget
				if b == 0 {
					b = 1200
				}
				budget += b
			}
			jf := filepath.Join(work, fmt.Sprintf("jobs%d.json", wi))
			jd, _ := json.Marshal(jl)
			os.WriteFile(jf, jd, 0o644)
			cmd := exec.Command(self, "exec", "-pkg", w.pkg, "-jobs", jf, "-known", filepath.Join(verifDir, "known_findings.json"))
			cmd.Env = append(os.Environ(), "VERIF_DIR="+verifDir)
			if os.Getenv("VSYM_XCHECK") == "" {
				// every n-th decided query is re-decided by a solver of the other family
				xe := "40"
				if tier == "thorough" {
					xe = "10"
				}
				cmd.Env = append(cmd.Env, "VSYM_XCHECK="+xe)
			}
			var ob []byte
			done := make(chan error, 1)
			go func() { var e error; ob, e = cmd.CombinedOutput(); done <- e }()
			errMsg := ""
			select {
			case e := <-done:
				if e != nil {
					errMsg = fmt.Sprintf("worker failed: %v", e)
				}
			case <-time.After(time.Duration(budget) * time.Second):
				cmd.Process.Kill()
				<-done
				errMsg = fmt.Sprintf("worker exceeded its budget of %ds", budget)
			}
			for _, k := range w.idxs {
				in := insts[k]
				in.log = string(ob)
				rd, err := os.ReadFile(filepath.Join(work, fmt.Sprintf("res%d.json", k)))
				var r ExecResult
				if err != nil || json.Unmarshal(rd, &r) != nil {
					if errMsg == "" {
						errMsg = "worker produced no result"
					}
					in.err = errMsg
				} else {
					in.res = &r
				}
			}
		}(wi, w)
	}
	wg.Wait()

	known := loadKnownFull(filepath.Join(verifDir, "known_findings.json"))
	exit := 0
	var inconclusive []string
	var violations, knownHits int
	type sampleT map[string]interface{}
	var samples []sampleT
	cov := map[string]interface{}{}
	var states, transitions, obligations, discharged, queries, replays int
	var xdiff DiffResult
	var solverSec float64
	funcs := map[string]bool{}
	stubs := map[string]int{}
	var perHarness []map[string]interface{}
	printedKnown := map[string]bool{}
	for _, in := range insts {
		hname := in.spec.Fn
		if len(in.cs) > 0 {
			hname += "@" + caseString(in.cs)
		}
		if in.err != "" {
			inconclusive = append(inconclusive, hname+": "+in.err+"\n"+lastLines(in.log, 15))
			continue
		}
		r := in.res
		states += r.Paths
		transitions += r.Branches
		obligations += r.Obligations
		discharged += r.Discharged
		queries += r.Queries
		solverSec += r.SolverSec
		if r.Diff != nil {
			xdiff.Solver = r.Diff.Solver
			xdiff.Checked += r.Diff.Checked
			xdiff.Agree += r.Diff.Agree
			xdiff.Disagree += r.Diff.Disagree
			xdiff.Unknown += r.Diff.Unknown
			xdiff.Seconds += r.Diff.Seconds
		}
		for _, f := range r.Funcs {
			funcs[f] = true
		}
		for s, n := range r.Stubs {
			stubs[s] += n
		}
		for _, m := range r.Inconclusive {
			inconclusive = append(inconclusive, hname+": "+m)
		}
		for _, m := range r.SolverErrors {
			inconclusive = append(inconclusive, hname+": solver error: "+m)
		}
		reach := in.spec.Reach
		if len(reach) == 0 {
			reach = []string{"end"}
		}
		for _, l := range reach {
			if r.Reached[l] == 0 {
				inconclusive = append(inconclusive, fmt.Sprintf("%s: vacuity guard: label %q was not reached on any path", hname, l))
			} else if len(samples) < 6 {
				samples = append(samples, sampleT{"harness": hname, "reached": l, "witness_inputs": r.ReachSamples[l]})
			}
		}
		perHarness = append(perHarness, map[string]interface{}{"harness": hname, "paths": r.Paths, "paths_ended": r.PathsEnded, "obligations": r.Obligations,
			"discharged": r.Discharged, "solver_queries": r.Queries, "solver_seconds": round2(r.SolverSec), "wall_seconds": round2(r.WallSec), "unwind": r.Unwind})
		for fi, f := range r.Findings {
			// replay natively
			rp := filepath.Join(verifDir, "replays", fmt.Sprintf("%s-%s-%d.json", id, sanitize(hname), fi))
			writeReplay(rp, id, in, &f)
			ok, detail := nativeReplay(work, rp)
			replays++
			if !ok && f.Kind == "unwind" {
				inconclusive = append(inconclusive, fmt.Sprintf("%s: %s at %s (the native run terminates: the bound is too small for this loop; %s)", hname, f.Label, f.Pos, detail))
				continue
			}
			if !ok {
				inconclusive = append(inconclusive, fmt.Sprintf("%s: solver counterexample for %s %q at %s did not reproduce natively (%s); replay=%s", hname, f.Kind, f.Label, f.Pos, detail, rp))
				continue
			}
			if f.Known != "" {
				if k, ok := known[f.Known]; ok && k.Status == "known" && k.Property == id {
					if !printedKnown[f.Known] {
						fmt.Printf("KNOWN-FINDING: property=%s %s: %s\n", id, f.Known, k.What)
						printedKnown[f.Known] = true
					}
					knownHits++
					continue
				}
			}
			violations++
			fmt.Printf("VIOLATION property=%s replay=%s\n", id, rp)
			fmt.Printf("  harness=%s kind=%s label=%q at %s (reproduced natively: %s)\n  inputs=%v\n", hname, f.Kind, f.Label, f.Pos, detail, f.Inputs)
			samples = append(samples, sampleT{"harness": hname, "violation": f.Label, "kind": f.Kind, "pos": f.Pos, "inputs": f.Inputs})
			exit = 1
		}
	}
	if len(inconclusive) > 0 && exit == 0 {
		exit = 3
	}
	for _, m := range inconclusive {
		fmt.Printf("INCONCLUSIVE: %s\n", m)
	}
	var fl []map[string]string
	var fnames []string
	for f := range funcs {
		fnames = append(fnames, f)
	}
	sort.Strings(fnames)
	for _, f := range fnames {
		if strings.Contains(f, ".vf") {
			continue
		}
		fl = append(fl, map[string]string{"fn": f})
	}
	cov["states"] = states
	cov["transitions"] = max(transitions, 1)
	cov["traces_validated_against_impl"] = replays
	cov["obligations"] = obligations
	cov["discharged"] = discharged
	cov["checker_cmd"] = "bin/vsym check " + id + " " + tier + "  (z3 -in, " + z3Version() + "; one check-sat-assuming per obligation / branch)"
	cov["trusted_base"] = []string{"vsym SSA executor and its environment models (stubs listed under stubs_used)", "golang.org/x/tools/go/ssa v0.50.0", z3Version(), "go1.26.8 type checker"}
	cov["samples"] = samples
	cov["functions_encoded"] = fl
	cov["stubs_used"] = stubs
	cov["bounds"] = spec.Bounds
	cov["outside_claim"] = spec.Outside
	cov["solver_queries"] = queries
	cov["second_solver_cross_check"] = map[string]interface{}{"solvers": "z3 5.1 (z3-new) vs cvc5 1.0 (the query is re-decided by the family that did not answer it)", "queries_rechecked": xdiff.Checked,
		"agree": xdiff.Agree, "disagree": xdiff.Disagree, "second_solver_unknown": xdiff.Unknown, "seconds": round2(xdiff.Seconds)}
	cov["solver_seconds"] = round2(solverSec)
	cov["harnesses"] = perHarness
	cov["inconclusive"] = inconclusive
	cov["known_findings_hit"] = knownHits
	cov["source_digest"] = repoDigest(fnames)
	cov["explanation"] = "paths = feasible symbolic execution paths of the harness through the real functions (states); transitions = symbolic branch decisions; every obligation (Go panic condition, vfAssert, vacuity label) is a z3 query over all values of the symbolic inputs within the stated bounds"
	ev := map[string]interface{}{"property_id": id, "tier": tier, "seed": seed, "level": spec.Level, "coverage": cov,
		"assumptions": spec.Assumptions, "wall_s": round2(time.Since(t0).Seconds()), "violations": violations}
	ed, _ := json.MarshalIndent(ev, "", " ")
	os.WriteFile(filepath.Join(evidenceDir, id+".json"), ed, 0o644)
	fmt.Printf("%s %s: harness instances=%d paths=%d obligations=%d discharged=%d violations=%d known=%d inconclusive=%d solver=%.1fs wall=%.1fs -> exit %d\n",
		id, tier, len(insts), states, obligations, discharged, violations, knownHits, len(inconclusive), solverSec, time.Since(t0).Seconds(), exit)
	os.RemoveAll(work)
	os.Exit(exit)
}

func round2(f float64) float64 { return float64(int64(f*100)) / 100 }

func lastLines(s string, n int) string {
	l := strings.Split(strings.TrimSpace(s), "\n")
	if len(l) > n {
		l = l[len(l)-n:]
	}
	return strings.Join(l, "\n")
}

func sanitize(s string) string {
	return regexp.MustCompile(`[^A-Za-z0-9_.-]+`).ReplaceAllString(s, "_")
}

var z3v string

func z3Version() string {
	if z3v == "" {
		out, _ := exec.Command("z3", "--version").Output()
		z3v = strings.TrimSpace(string(out))
	}
	return z3v
}

// repoDigest hashes the repo source files of the packages whose functions were encoded.
func repoDigest(funcs []string) string {
	dirs := map[string]bool{}
	re := regexp.MustCompile(regexp.QuoteMeta(modPath) + `/([A-Za-z0-9_/]+)\.`)
	for _, f := range funcs {
		if m := re.FindStringSubmatch(f); m != nil {
			dirs[m[1]] = true
		}
	}
	var ds []string
	for d := range dirs {
		ds = append(ds, d)
	}
	sort.Strings(ds)
	h := sha256.New()
	for _, d := range ds {
		ents, _ := os.ReadDir(filepath.Join(repoDir, d))
		for _, e := range ents {
			if strings.HasSuffix(e.Name(), ".go") && !strings.HasSuffix(e.Name(), "_test.go") {
				b, _ := os.ReadFile(filepath.Join(repoDir, d, e.Name()))
				h.Write([]byte(e.Name()))
				h.Write(b)
			}
		}
	}
	return fmt.Sprintf("sha256:%x over %v", h.Sum(nil)[:8], ds)
}

type KnownEntry struct {
	Property string `json:"property"`
	Label    string `json:"label"`
	Status   string `json:"status"`
	What     string `json:"what"`
	Commit   string `json:"commit,omitempty"`
}

func loadKnownFull(path string) map[string]KnownEntry {
	out := map[string]KnownEntry{}
	data, err := os.ReadFile(path)
	if err != nil {
		return out
	}
	var kf struct {
		Findings []KnownEntry `json:"findings"`
	}
	if json.Unmarshal(data, &kf) != nil {
		return out
	}
	for _, f := range kf.Findings {
		out[f.Label] = f
	}
	return out
}

// ---------------------------------------------------------------- native replay

type ReplayFile struct {
	Property string            `json:"property"`
	Pkg      string            `json:"pkg"`
	Harness  string            `json:"harness"`
	Case     map[string]int64  `json:"case"`
	Kind     string            `json:"kind"`
	Label    string            `json:"label"`
	Pos      string            `json:"pos"`
	Stack    []string          `json:"stack"`
	Inputs   map[string]string `json:"inputs"`
	Repeat   int               `json:"replay_repeat,omitempty"`
	Synctest bool              `json:"synctest,omitempty"`
	Schedule *SchedInfo        `json:"schedule,omitempty"`
	Howto    string            `json:"howto"`
}

func writeReplay(path, id string, in *jobInst, f *FindingJSON) {
	rf := ReplayFile{Property: id, Pkg: in.spec.Pkg, Harness: in.spec.Fn, Case: in.cs, Kind: f.Kind, Label: f.Label, Pos: f.Pos, Stack: f.Stack, Inputs: f.Inputs,
		Synctest: in.spec.Synctest, Repeat: in.spec.Repeat, Schedule: f.Sched, Howto: "bin/vsym replay " + path + "   (runs the harness natively against /repo with these inputs via go test -overlay)"}
	d, _ := json.MarshalIndent(rf, "", " ")
	os.WriteFile(path, d, 0o644)
}

var harnessFnRe = regexp.MustCompile(`(?m)^func (vf[A-Za-z0-9_]+)\(\)\s*\{`)

// nativeReplay runs the harness natively with the recorded inputs and reports whether the same failure occurs.
// stressMemo remembers the outcome of the stress replay per harness instance (it is expensive and
// every deadlock finding of one instance describes the same kind of hang).
var stressMemo = map[string]string{}

// nativeReplay replays a finding against the real code.  A deadlock finding whose recorded
// schedule cannot be forced natively (the decisive step lies inside the Go runtime, e.g. the
// wake-up of a blocked socket read) is retried as a stress replay: the same harness, no forced
// schedule, network sends multiplied, repeated; it counts as reproduced only if the real code
// really hangs.
func nativeReplay(work, replayPath string) (bool, string) {
	ok, detail := nativeReplayOnce(work, replayPath, replayForced)
	if ok {
		return ok, detail
	}
	data, err := os.ReadFile(replayPath)
	if err != nil {
		return ok, detail
	}
	var rf ReplayFile
	if json.Unmarshal(data, &rf) != nil || rf.Schedule == nil {
		return ok, detail
	}
	// the recorded schedule could not be forced (goroutines of the code under test that the
	// harness does not drive, hand-overs inside harness intrinsics): let the real code run freely
	if ok1, d1 := nativeReplayOnce(work, replayPath, replayFree); ok1 {
		return true, d1 + " (free-running replay)"
	}
	if rf.Kind != "deadlock" {
		return ok, detail
	}
	key := rf.Harness + "@" + fmt.Sprint(rf.Case)
	if m, done := stressMemo[key]; done {
		return m != "", firstNonEmpty(m, detail)
	}
	ok2, d2 := nativeReplayOnce(work, replayPath, replayStress)
	if ok2 {
		stressMemo[key] = d2 + " (stress replay: no forced schedule, sends multiplied)"
		return true, stressMemo[key]
	}
	stressMemo[key] = ""
	return false, detail
}

const (
	replayForced = iota
	replayFree
	replayStress
)

func firstNonEmpty(a, b string) string {
	if a != "" {
		return a
	}
	return b
}

func nativeReplayOnce(work, replayPath string, mode int) (bool, string) {
	stress := mode == replayStress
	data, err := os.ReadFile(replayPath)
	if err != nil {
		return false, err.Error()
	}
	var rf ReplayFile
	if err := json.Unmarshal(data, &rf); err != nil {
		return false, err.Error()
	}
	dir, err := os.MkdirTemp(work, "replay")
	if err != nil {
		return false, err.Error()
	}
	defer os.RemoveAll(dir)
	ov, _ := buildOverlay(rf.Pkg, true)
	repl := map[string]string{}
	var names []string
	pkgName := ""
	k := 0
	for p, content := range ov {
		k++
		local := filepath.Join(dir, fmt.Sprintf("f%d_%s", k, filepath.Base(p)))
		os.WriteFile(local, content, 0o644)
		repl[p] = local
		for _, m := range harnessFnRe.FindAllStringSubmatch(string(content), -1) {
			names = append(names, m[1])
		}
		if pkgName == "" {
			for _, line := range strings.Split(string(content), "\n") {
				if strings.HasPrefix(line, "package ") {
					pkgName = strings.TrimSpace(strings.TrimPrefix(line, "package "))
					break
				}
			}
		}
	}
	if rf.Schedule != nil && mode == replayForced {
		// force the recorded schedule: insert vfSched("<file:line>") before the statements at the
		// recorded scheduling points, in overlay copies of the repo files (and of the harness files)
		byFile := map[string]map[int]string{}
		for _, pt := range rf.Schedule.Points {
			i := strings.LastIndexByte(pt, ':')
			if i < 0 || strings.HasPrefix(pt, "spawn:") {
				continue
			}
			var line int
			fmt.Sscanf(pt[i+1:], "%d", &line)
			f := filepath.Join(repoDir, pt[:i])
			if filepath.Dir(pt[:i]) != filepath.Clean(rf.Pkg) {
				continue // vfSched exists only in the package under test
			}
			if byFile[f] == nil {
				byFile[f] = map[int]string{}
			}
			byFile[f][line] = pt
		}
		// goroutines of the code under test are recognised by the function literal they run
		goByFile := map[string]map[int]string{}
		addSite := func(name string) {
			if !strings.HasPrefix(name, "go@") {
				return
			}
			site := name[3:]
			if i := strings.LastIndexByte(site, '#'); i >= 0 {
				site = site[:i]
			}
			i := strings.LastIndexByte(site, ':')
			if i < 0 {
				return
			}
			var line int
			fmt.Sscanf(site[i+1:], "%d", &line)
			f := filepath.Join(repoDir, site[:i])
			if goByFile[f] == nil {
				goByFile[f] = map[int]string{}
			}
			goByFile[f][line] = site
			if byFile[f] == nil {
				byFile[f] = map[int]string{}
			}
		}
		for _, sw := range rf.Schedule.Switches {
			addSite(sw.G)
			addSite(sw.Next)
		}
		k := 1000
		for f, lines := range byFile {
			var src []byte
			if local, ok := repl[f]; ok {
				src, _ = os.ReadFile(local)
			} else {
				src, _ = os.ReadFile(f)
			}
			if src == nil {
				continue
			}
			out, err := instrumentSource(f, src, lines, goByFile[f])
			if err != nil {
				return false, "cannot instrument " + f + ": " + err.Error()
			}
			k++
			local := filepath.Join(dir, fmt.Sprintf("s%d_%s", k, filepath.Base(f)))
			os.WriteFile(local, out, 0o644)
			repl[f] = local
		}
	}
	sort.Strings(names)
	var sb strings.Builder
	fmt.Fprintf(&sb, "package %s\n\nimport (\n\t\"fmt\"\n\t\"os\"\n\t\"testing\"\n\t\"testing/synctest\"\n)\n\nvar vfHarnesses = map[string]func(){\n", pkgName)
	for _, n := range names {
		fmt.Fprintf(&sb, "\t%q: %s,\n", n, n)
	}
	sb.WriteString(`}

func TestVFReplay(t *testing.T) {
	fn := vfHarnesses[os.Getenv("VF_HARNESS")]
	if fn == nil {
		t.Fatalf("no harness %q", os.Getenv("VF_HARNESS"))
	}
	failed := false
	run := func() {
		defer func() {
			r := recover()
			if r != nil {
				failed = true
			}
			switch x := r.(type) {
			case nil:
				fmt.Println("VF-OUTCOME: ok")
			case VfFailure:
				fmt.Printf("VF-OUTCOME: assert %s\n", x.Label)
			case VfAssumeFailed:
				fmt.Println("VF-OUTCOME: assume-failed")
			default:
				fmt.Printf("VF-OUTCOME: panic %v\n", r)
			}
		}()
		fn()
	}
	// Schedules that depend on Go's random choice among ready select cases are replayed
	// statistically: the harness is re-run until the recorded failure shows (VF_REPEAT times at most).
	repeat := 1
	fmt.Sscanf(os.Getenv("VF_REPEAT"), "%d", &repeat)
	for i := 0; i < repeat && !failed; i++ {
		VfReset()
		if os.Getenv("VF_SYNCTEST") == "1" {
			synctest.Test(t, func(t *testing.T) { run() })
		} else {
			run()
		}
	}
}
`)
	tp := filepath.Join(repoDir, rf.Pkg, "zz_vf_replay_test.go")
	local := filepath.Join(dir, "replay_test.go")
	os.WriteFile(local, []byte(sb.String()), 0o644)
	repl[tp] = local
	oj, _ := json.Marshal(map[string]interface{}{"Replace": repl})
	ovPath := filepath.Join(dir, "overlay.json")
	os.WriteFile(ovPath, oj, 0o644)
	cmd := exec.Command("go", "test", "-v", "-vet=off", "-count=1", "-run", "^TestVFReplay$", "-timeout", "60s", "-overlay", ovPath, "./"+rf.Pkg)
	cmd.Dir = repoDir
	cmd.Env = append(os.Environ(), "VF_REPLAY="+replayPath, "VF_HARNESS="+rf.Harness, "GOFLAGS=-mod=mod")
	if stress {
		cmd.Env = append(cmd.Env, "VF_STRESS=1", "VF_REPEAT=25")
	} else if mode == replayFree {
		cmd.Env = append(cmd.Env, "VF_FREE=1", "VF_REPEAT=3")
	}
	if rf.Synctest {
		cmd.Env = append(cmd.Env, "VF_SYNCTEST=1")
	}
	if rf.Repeat > 1 {
		cmd.Env = append(cmd.Env, fmt.Sprintf("VF_REPEAT=%d", rf.Repeat))
	}
	out, _ := cmd.CombinedOutput()
	txt := string(out)
	lastReplayOutput = txt
	outcome := ""
	for _, line := range strings.Split(txt, "\n") {
		if strings.HasPrefix(line, "VF-OUTCOME: ") {
			outcome = strings.TrimPrefix(line, "VF-OUTCOME: ")
		}
	}
	if outcome == "" {
		if strings.Contains(txt, "panic:") || strings.Contains(txt, "fatal error:") {
			outcome = "panic (process died): " + firstLineWith(txt, "panic:", "fatal error:")
		} else {
			return false, "no outcome: " + lastLines(txt, 8)
		}
	}
	switch {
	case rf.Kind == "assert":
		if outcome == "assert "+rf.Label {
			return true, outcome
		}
	case strings.HasPrefix(rf.Kind, "panic:"):
		if strings.HasPrefix(outcome, "panic") {
			return true, outcome
		}
	case rf.Kind == "unwind":
		if strings.Contains(txt, "test timed out") {
			return true, "native run does not terminate (test timed out)"
		}
	case rf.Kind == "deadlock":
		if strings.Contains(txt, "deadlock") || strings.Contains(txt, "test timed out") {
			return true, "deadlock"
		}
	}
	return false, "native outcome: " + outcome
}

func firstLineWith(txt string, subs ...string) string {
	for _, line := range strings.Split(txt, "\n") {
		for _, s := range subs {
			if strings.Contains(line, s) {
				return strings.TrimSpace(line)
			}
		}
	}
	return ""
}

var lastReplayOutput string

func cmdReplay(args []string) {
	if len(args) < 1 {
		fatalf("usage: vsym replay <replay.json>")
	}
	work := filepath.Join(verifDir, ".work", fmt.Sprintf("replay-%d", os.Getpid()))
	os.MkdirAll(work, 0o755)
	defer os.RemoveAll(work)
	ok, detail := nativeReplay(work, args[0])
	if os.Getenv("VSYM_REPLAY_VERBOSE") != "" {
		fmt.Println(lastReplayOutput)
	}
	fmt.Printf("replay %s: reproduced=%v (%s)\n", args[0], ok, detail)
	os.RemoveAll(work)
	if ok {
		os.Exit(1)
	}
	os.Exit(0)
}

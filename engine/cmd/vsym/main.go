package main

import (
	"encoding/json"
	"flag"
	"fmt"
	"go/token"
	"os"
	"path/filepath"
	"sort"
	"strconv"
	"strings"
	"time"

	"golang.org/x/tools/go/packages"
	"golang.org/x/tools/go/ssa"
	"golang.org/x/tools/go/ssa/ssautil"
)

// repoDir is the tree under verification (VSYM_REPO overrides it: used to try seeded changes in a scratch worktree).
var repoDir = envOr("VSYM_REPO", "/repo")

const modPath = "github.com/database64128/shadowsocks-go"

var verifDir = "/verif"

func fatalf(f string, a ...interface{}) {
	fmt.Fprintf(os.Stderr, "vsym: "+f+"\n", a...)
	os.Exit(3)
}

func main() {
	if len(os.Args) < 2 {
		fatalf("usage: vsym exec|check|replay ...")
	}
	if d := os.Getenv("VERIF_DIR"); d != "" {
		verifDir = d
	} else if exe, err := os.Executable(); err == nil {
		// bin/vsym lives in <verif>/bin
		d := filepath.Dir(filepath.Dir(exe))
		if _, err := os.Stat(filepath.Join(d, "harness")); err == nil {
			verifDir = d
		}
	}
	os.Setenv("PATH", "/opt/veriftools/go1.26.8/bin:"+os.Getenv("PATH"))
	for _, kv := range []string{"GOFLAGS=-mod=mod", "GOPROXY=off", "GOSUMDB=off", "GOTOOLCHAIN=local"} {
		p := strings.SplitN(kv, "=", 2)
		os.Setenv(p[0], p[1])
	}
	switch os.Args[1] {
	case "exec":
		cmdExec(os.Args[2:])
	case "check":
		cmdCheck(os.Args[2:])
	case "difftest":
		cmdDifftest(os.Args[2:])
	case "replay":
		cmdReplay(os.Args[2:])
	default:
		fatalf("unknown command %s", os.Args[1])
	}
}

// buildOverlay maps every harness file under <verif>/harness/<rel>/ into /repo/<rel>/zz_<name>.
func buildOverlay(rel string, native bool) (map[string][]byte, []string) {
	ov := map[string][]byte{}
	var files []string
	dir := filepath.Join(verifDir, "harness", rel)
	ents, err := os.ReadDir(dir)
	if err != nil {
		fatalf("harness dir %s: %v", dir, err)
	}
	pkgName := ""
	for _, e := range ents {
		if !strings.HasSuffix(e.Name(), ".go") {
			continue
		}
		data, err := os.ReadFile(filepath.Join(dir, e.Name()))
		if err != nil {
			fatalf("%v", err)
		}
		if pkgName == "" {
			for _, line := range strings.Split(string(data), "\n") {
				if strings.HasPrefix(line, "package ") {
					pkgName = strings.TrimSpace(strings.TrimPrefix(line, "package "))
					break
				}
			}
		}
		name := e.Name()
		if strings.HasSuffix(name, "_test.go") {
			continue
		}
		p := filepath.Join(repoDir, rel, "zz_"+name)
		ov[p] = data
		files = append(files, p)
	}
	tmpl, err := os.ReadFile(filepath.Join(verifDir, "harness", "_tmpl", "intrinsics.go.tmpl"))
	if err != nil {
		fatalf("%v", err)
	}
	p := filepath.Join(repoDir, rel, "zz_vf_intrinsics.go")
	ov[p] = []byte(strings.ReplaceAll(string(tmpl), "PKGNAME", pkgName))
	files = append(files, p)
	if rl, err := os.ReadFile(filepath.Join(verifDir, "harness", "_tmpl", "rlimit.go.tmpl")); err == nil {
		p := filepath.Join(repoDir, rel, "zz_vf_rlimit.go")
		ov[p] = []byte(strings.ReplaceAll(string(rl), "PKGNAME", pkgName))
		files = append(files, p)
	}
	if _, err := os.Stat(filepath.Join(dir, ".netutil")); err == nil {
		nt, err := os.ReadFile(filepath.Join(verifDir, "harness", "_tmpl", "netutil.go.tmpl"))
		if err != nil {
			fatalf("%v", err)
		}
		p := filepath.Join(repoDir, rel, "zz_vf_netutil.go")
		ov[p] = []byte(strings.ReplaceAll(string(nt), "PKGNAME", pkgName))
		files = append(files, p)
	}
	if _, err := os.Stat(filepath.Join(dir, ".httputil")); err == nil {
		nt, err := os.ReadFile(filepath.Join(verifDir, "harness", "_tmpl", "httputil.go.tmpl"))
		if err != nil {
			fatalf("%v", err)
		}
		p := filepath.Join(repoDir, rel, "zz_vf_httputil.go")
		ov[p] = []byte(strings.ReplaceAll(string(nt), "PKGNAME", pkgName))
		files = append(files, p)
	}
	return ov, files
}

func loadProgram(rel string) (*ssa.Program, *ssa.Package, *token.FileSet) {
	ov, _ := buildOverlay(rel, false)
	fset := token.NewFileSet()
	cfg := &packages.Config{
		Mode:    packages.LoadAllSyntax,
		Dir:     repoDir,
		Fset:    fset,
		Overlay: ov,
		Env:     append(os.Environ(), "GOFLAGS=-mod=mod", "GOPROXY=off", "GOSUMDB=off", "GOTOOLCHAIN=local", "CGO_ENABLED=0"),
	}
	tl0 := time.Now()
	pkgs, err := packages.Load(cfg, "./"+rel)
	if os.Getenv("VSYM_TIMING") != "" {
		fmt.Fprintf(os.Stderr, "packages.Load: %.2fs\n", time.Since(tl0).Seconds())
	}
	if err != nil {
		fatalf("load: %v", err)
	}
	nerr := 0
	packages.Visit(pkgs, nil, func(p *packages.Package) {
		for _, e := range p.Errors {
			if nerr < 20 {
				fmt.Fprintf(os.Stderr, "load error: %v\n", e)
			}
			nerr++
		}
	})
	if nerr > 0 {
		fatalf("%d package load errors (the tree or a harness does not compile)", nerr)
	}
	tl := time.Now()
	prog, spkgs := ssautil.AllPackages(pkgs, ssa.InstantiateGenerics)
	spkgs[0].Build()
	if os.Getenv("VSYM_TIMING") != "" {
		fmt.Fprintf(os.Stderr, "ssa create+build root: %.2fs\n", time.Since(tl).Seconds())
	}
	return prog, spkgs[0], fset
}

type ExecResult struct {
	Harness      string                       `json:"harness"`
	Case         map[string]int64             `json:"case,omitempty"`
	Paths        int                          `json:"paths"`
	PathsEnded   map[string]int               `json:"paths_ended"`
	Branches     int                          `json:"branch_decisions"`
	Obligations  int                          `json:"obligations"`
	Discharged   int                          `json:"discharged"`
	Trivial      int                          `json:"trivial"`
	Queries      int                          `json:"solver_queries"`
	CacheHits    int                          `json:"solver_cache_hits"`
	SolverSec    float64                      `json:"solver_seconds"`
	WallSec      float64                      `json:"wall_seconds"`
	LoadSec      float64                      `json:"load_seconds"`
	Inconclusive []string                     `json:"inconclusive,omitempty"`
	Reached      map[string]int               `json:"reached"`
	ReachSamples map[string]map[string]string `json:"reach_samples,omitempty"`
	Funcs        []string                     `json:"functions_encoded"`
	Stubs        map[string]int               `json:"stubs_used"`
	Findings     []FindingJSON                `json:"findings,omitempty"`
	SolverErrors []string                     `json:"solver_errors,omitempty"`
	Unwind       int                          `json:"unwind"`
	Observed     []string                     `json:"observed,omitempty"`
	Diff         *DiffResult                  `json:"second_solver,omitempty"`
	Winners      map[string]int               `json:"solver_winners,omitempty"`
	ModelHits    int                          `json:"model_cache_hits"`
	UnsatHits    int                          `json:"unsat_subset_hits"`
	Tier1Hits    int                          `json:"scalar_tier_hits"`
	Merged       int                          `json:"branches_merged"`
	Resolved     int                          `json:"layer_conditions_resolved"`
	InputsUsed   map[string]string            `json:"inputs_used,omitempty"`
}

type DiffResult struct {
	Solver   string  `json:"solver"`
	Checked  int     `json:"checked"`
	Agree    int     `json:"agree"`
	Disagree int     `json:"disagree"`
	Unknown  int     `json:"unknown"`
	Seconds  float64 `json:"seconds"`
}

type FindingJSON struct {
	Kind   string            `json:"kind"`
	Label  string            `json:"label"`
	Pos    string            `json:"pos"`
	Stack  []string          `json:"stack"`
	Inputs map[string]string `json:"inputs"`
	Count  int               `json:"count"`
	Known  string            `json:"known,omitempty"`
	Sched  *SchedInfo        `json:"schedule,omitempty"`
}

func parseCase(s string) map[string]int64 {
	out := map[string]int64{}
	if s == "" {
		return out
	}
	for _, kv := range strings.Split(s, ",") {
		p := strings.SplitN(kv, "=", 2)
		if len(p) != 2 {
			fatalf("bad -case %q", kv)
		}
		v, err := strconv.ParseInt(p[1], 0, 64)
		if err != nil {
			fatalf("bad -case value %q", kv)
		}
		out[p[0]] = v
	}
	return out
}

func cmdExec(args []string) {
	fs := flag.NewFlagSet("exec", flag.ExitOnError)
	rel := fs.String("pkg", "", "package directory relative to /repo")
	fns := fs.String("fn", "", "harness function(s), comma separated; each may carry @k=v;k=v case values")
	unwind := fs.Int("unwind", 64, "unwinding bound for symbolic loop branches")
	maxSteps := fs.Int("steps", 20000000, "instruction budget per path")
	maxPaths := fs.Int("paths", 200000, "path budget")
	timeout := fs.Int("timeout", 60000, "solver timeout per query (ms)")
	out := fs.String("out", "", "write JSON results here (array)")
	verbose := fs.Bool("v", false, "verbose")
	smtlog := fs.String("smtlog", "", "log solver traffic")
	known := fs.String("known", "", "known_findings.json")
	_ = fs.String("second", "", "(obsolete: the cross-check is controlled by VSYM_XCHECK)")
	inputsFile := fs.String("inputs", "", "JSON file with a concrete input vector (differential mode)")
	randSeed := fs.Uint64("random", 0, "differential mode: draw missing inputs pseudo-randomly from this seed (concrete run)")
	solverBin := fs.String("solver", envOr("VSYM_SOLVER", "z3-new"), "primary solver binary (z3-new | z3 | cvc5)")
	jobsFile := fs.String("jobs", "", "JSON file: list of {fn,case,unwind,paths,steps,timeout,out}")
	fs.Parse(args)
	type jobT struct {
		Fn      string           `json:"fn"`
		Case    map[string]int64 `json:"case"`
		Unwind  int              `json:"unwind"`
		Paths   int              `json:"paths"`
		Steps   int              `json:"steps"`
		Timeout int              `json:"timeout"`
		Out     string           `json:"out"`
		Random  uint64           `json:"random"`
	}
	var jobList []jobT
	if *jobsFile != "" {
		jd, err := os.ReadFile(*jobsFile)
		if err != nil {
			fatalf("%v", err)
		}
		if err := json.Unmarshal(jd, &jobList); err != nil {
			fatalf("jobs: %v", err)
		}
	} else {
		for _, spec := range strings.Split(*fns, ",") {
			name := spec
			caseStr := ""
			if i := strings.IndexByte(spec, '@'); i >= 0 {
				name, caseStr = spec[:i], strings.ReplaceAll(spec[i+1:], ";", ",")
			}
			jobList = append(jobList, jobT{Fn: name, Case: parseCase(caseStr)})
		}
	}
	t0 := time.Now()
	prog, pkg, fset := loadProgram(*rel)
	loadSec := time.Since(t0).Seconds()
	knownLabels := loadKnown(*known)
	var results []*ExecResult
	for _, job := range jobList {
		name := job.Fn
		caseStr := caseString(job.Case)
		uw, mp, ms, to := *unwind, *maxPaths, *maxSteps, *timeout
		if job.Unwind > 0 {
			uw = job.Unwind
		}
		if job.Paths > 0 {
			mp = job.Paths
		}
		if job.Steps > 0 {
			ms = job.Steps
		}
		if job.Timeout > 0 {
			to = job.Timeout
		}
		fn := pkg.Func(name)
		if fn == nil {
			fatalf("no function %s in %s", name, pkg.Pkg.Path())
		}
		t1 := time.Now()
		solver, err := NewSolver(*solverBin, to, *smtlog)
		if err != nil {
			fatalf("solver: %v", err)
		}
		fmt.Sscanf(os.Getenv("VSYM_XCHECK"), "%d", &solver.XEvery)
		ex := &Exec{prog: prog, solver: solver, fset: fset, unwind: uw, maxSteps: ms, maxPaths: mp,
			harness: name, pkgRel: *rel, caseVals: job.Case, verbose: *verbose,
			PathsEnded: map[string]int{}, Findings: map[string]*Finding{}, Reached: map[string]int{}, ReachSample: map[string]map[string]string{},
			FuncsEntered: map[string]bool{}, StubsUsed: map[string]int{}, knownLabels: knownLabels}
		if *inputsFile != "" {
			ex.concrete = loadConcrete(*inputsFile)
		}
		if seed := max(*randSeed, job.Random); seed != 0 {
			if ex.concrete == nil {
				ex.concrete = map[string]string{}
			}
			ex.randSeed = seed
		}
		ex.Explore(fn)
		res := &ExecResult{Harness: name, Case: ex.caseVals, Paths: ex.Paths, PathsEnded: ex.PathsEnded, Branches: ex.Branches,
			Obligations: ex.Obligations, Discharged: ex.Discharged, Trivial: ex.Trivial, Queries: solver.Queries, CacheHits: solver.CacheHits,
			SolverSec: solver.Seconds, LoadSec: loadSec, Inconclusive: ex.Inconclusive, Reached: ex.Reached, ReachSamples: ex.ReachSample,
			Stubs: ex.StubsUsed, Winners: solver.Winners, ModelHits: solver.ModelHits, UnsatHits: solver.CoreHits, Tier1Hits: solver.Tier1Hits, Merged: ex.Merged, Resolved: ex.Resolved, SolverErrors: solver.Errors, Unwind: uw, Observed: ex.Observed}
		for f := range ex.FuncsEntered {
			res.Funcs = append(res.Funcs, f)
		}
		sort.Strings(res.Funcs)
		for _, f := range ex.sortedFindings() {
			res.Findings = append(res.Findings, FindingJSON{Kind: f.Kind, Label: f.Label, Pos: f.Pos, Stack: f.Stack, Inputs: f.Inputs, Count: f.Count, Known: f.Known, Sched: f.Sched})
		}
		if solver.XEvery > 0 {
			x := solver.X
			res.Diff = &x
		}
		if ex.randSeed != 0 {
			res.InputsUsed = ex.concrete
		}
		solver.Close()
		res.WallSec = time.Since(t1).Seconds()
		results = append(results, res)
		if job.Out != "" {
			jd, _ := json.Marshal(res)
			os.WriteFile(job.Out, jd, 0o644)
		}
		fmt.Fprintf(os.Stderr, "%s%v: paths=%d obligations=%d discharged=%d findings=%d inconclusive=%d queries=%d solver=%.1fs wall=%.1fs\n",
			name, caseStr, ex.Paths, ex.Obligations, ex.Discharged, len(ex.Findings), len(ex.Inconclusive), solver.Queries, solver.Seconds, res.WallSec)
	}
	data, _ := json.MarshalIndent(results, "", " ")
	if *jobsFile != "" {
		return
	}
	if *out != "" {
		os.WriteFile(*out, data, 0o644)
	} else {
		os.Stdout.Write(data)
		fmt.Println()
	}
}

func loadKnown(path string) map[string]string {
	out := map[string]string{}
	if path == "" {
		return out
	}
	data, err := os.ReadFile(path)
	if err != nil {
		return out
	}
	var kf struct {
		Findings []struct {
			Label  string `json:"label"`
			Status string `json:"status"`
		} `json:"findings"`
	}
	if json.Unmarshal(data, &kf) != nil {
		return out
	}
	for _, f := range kf.Findings {
		out[f.Label] = f.Status
	}
	return out
}

// loadConcrete reads the "inputs" of a replay file (or a bare name->string map).
func loadConcrete(path string) map[string]string {
	data, err := os.ReadFile(path)
	if err != nil {
		fatalf("%v", err)
	}
	var rf struct {
		Inputs map[string]string `json:"inputs"`
	}
	if err := json.Unmarshal(data, &rf); err == nil && rf.Inputs != nil {
		return rf.Inputs
	}
	m := map[string]string{}
	if err := json.Unmarshal(data, &m); err != nil {
		fatalf("inputs: %v", err)
	}
	return m
}


func envOr(k, d string) string {
	if v := os.Getenv(k); v != "" {
		return v
	}
	return d
}

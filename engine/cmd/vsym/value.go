package main

import (
	"fmt"
	"go/types"

	"golang.org/x/tools/go/ssa"
)

// Value is one of: *Term, *Ptr, *SliceV, TupleV, *IfaceV, *FuncV, *MapV, *ChanV, *Opaque, nil(=untyped zero handled by callers)
type Value interface{}

type TupleV []Value // struct, array, multi-value

type PathElem struct {
	I int   // concrete index (field or element) when T == nil
	T *Term // symbolic element index (64-bit)
}

// Ptr points into an object: either along a path of a cells object, or at a byte offset of a bytes object.
type Ptr struct {
	Obj   *Object // nil = nil pointer
	Path  []PathElem
	Off   *Term      // bytes objects: byte offset
	ElemT types.Type // static element type remembered across a conversion to unsafe.Pointer
	View  types.Type // set when the pointer was re-typed through unsafe.Pointer: loads/stores convert by scalar leaves
}

type Object struct {
	ID      int
	Name    string
	IsBytes bool
	Top     *Layer // bytes
	Size    *Term  // bytes: capacity of the backing array (64-bit)
	Val     Value  // cells
	Typ     types.Type
	RO      bool      // string data
	Watch   bool      // scheduling point on access (vfPreemptOnAccess)
	Doc     *docModel // JSON document model (credential store files)
	DocLen  *Term     // full length of the document including its final newline
}

// SliceV is a slice or a string.  Obj==nil means nil slice / empty string.
type SliceV struct {
	Obj  *Object
	Path []PathElem // cells objects: path to the backing array inside Obj
	Off  *Term
	Len  *Term
	Cap  *Term
	Str  bool
}

type IfaceV struct {
	Typ types.Type // nil = nil interface
	Val Value
}

type FuncV struct {
	Fn       *ssa.Function
	Bindings []Value
	Builtin  *ssa.Builtin
	Native   func(ex *Exec, args []Value) Value // engine-defined closure (stubs)
	Name     string
}

type MapEntry struct {
	K, V Value
}
type MapV struct {
	ID      int
	Entries []*MapEntry
	KeyT    types.Type
	ValT    types.Type
}

// Opaque stands for a value the engine does not model (zap fields, formatted strings, ...).
type Opaque struct {
	What string
	Wrap []Value // errors wrapped by fmt.Errorf("%w")
}

var nilPtr = &Ptr{}

func isNilPtr(p *Ptr) bool { return p == nil || p.Obj == nil }

func intWidth(t types.Type) (w int, signed bool, ok bool) {
	b, isB := t.Underlying().(*types.Basic)
	if !isB {
		return 0, false, false
	}
	switch b.Kind() {
	case types.Int8:
		return 8, true, true
	case types.Int16:
		return 16, true, true
	case types.Int32:
		return 32, true, true
	case types.Int64, types.Int:
		return 64, true, true
	case types.Uint8:
		return 8, false, true
	case types.Uint16:
		return 16, false, true
	case types.Uint32:
		return 32, false, true
	case types.Uint64, types.Uint, types.Uintptr:
		return 64, false, true
	case types.UntypedInt, types.UntypedRune:
		return 64, true, true
	}
	return 0, false, false
}

func isByteType(t types.Type) bool {
	b, ok := t.Underlying().(*types.Basic)
	return ok && b.Kind() == types.Uint8
}

func isStringType(t types.Type) bool {
	b, ok := t.Underlying().(*types.Basic)
	return ok && b.Info()&types.IsString != 0
}

func isBoolType(t types.Type) bool {
	b, ok := t.Underlying().(*types.Basic)
	return ok && b.Info()&types.IsBoolean != 0
}

func isFloatType(t types.Type) bool {
	b, ok := t.Underlying().(*types.Basic)
	return ok && b.Info()&(types.IsFloat|types.IsComplex) != 0
}

func (ex *Exec) zero(t types.Type) Value {
	switch u := t.Underlying().(type) {
	case *types.Basic:
		if w, _, ok := intWidth(t); ok {
			return BV(w, 0)
		}
		switch {
		case u.Kind() == types.Invalid:
			return nil // unused component of a range tuple
		case u.Info()&types.IsBoolean != 0:
			return TFalse
		case u.Info()&types.IsString != 0:
			return &SliceV{Off: BV(64, 0), Len: BV(64, 0), Cap: BV(64, 0), Str: true}
		case u.Kind() == types.UnsafePointer:
			return nilPtr
		case u.Info()&types.IsFloat != 0:
			return &Opaque{What: "float0"}
		case u.Kind() == types.UntypedNil:
			return nilPtr
		}
	case *types.Pointer:
		return nilPtr
	case *types.Slice:
		return &SliceV{Off: BV(64, 0), Len: BV(64, 0), Cap: BV(64, 0)}
	case *types.Map:
		return (*MapV)(nil)
	case *types.Chan:
		return (*ChanV)(nil)
	case *types.Signature:
		return (*FuncV)(nil)
	case *types.Interface:
		return &IfaceV{}
	case *types.Struct:
		tv := make(TupleV, u.NumFields())
		for i := range tv {
			tv[i] = ex.zero(u.Field(i).Type())
		}
		return tv
	case *types.Array:
		n := int(u.Len())
		tv := make(TupleV, n)
		if n > 0 {
			z := ex.zero(u.Elem())
			if _, scalar := z.(*Term); scalar {
				for i := range tv {
					tv[i] = z
				}
			} else {
				tv[0] = z
				for i := 1; i < n; i++ {
					tv[i] = ex.zero(u.Elem())
				}
			}
		}
		return tv
	case *types.Tuple:
		tv := make(TupleV, u.Len())
		for i := range tv {
			tv[i] = ex.zero(u.At(i).Type())
		}
		return tv
	}
	panic(unsupported(fmt.Sprintf("zero value of %s", t)))
}

func copyValue(v Value) Value {
	if tv, ok := v.(TupleV); ok {
		out := make(TupleV, len(tv))
		for i, x := range tv {
			out[i] = copyValue(x)
		}
		return out
	}
	return v
}

var objCount int

func (ex *Exec) newCells(t types.Type, v Value, name string) *Object {
	objCount++
	return &Object{ID: objCount, Val: v, Typ: t, Name: name}
}

func (ex *Exec) newBytes(top *Layer, size *Term, name string) *Object {
	objCount++
	return &Object{ID: objCount, IsBytes: true, Top: top, Size: size, Name: name}
}

// ---------------------------------------------------------------- navigation in cells objects

func pathAppend(p []PathElem, e PathElem) []PathElem {
	out := make([]PathElem, len(p)+1)
	copy(out, p)
	out[len(p)] = e
	return out
}

// iteValue merges two values of identical shape.
func iteValue(c *Term, a, b Value) Value {
	if c == TTrue {
		return a
	}
	if c == TFalse {
		return b
	}
	switch x := a.(type) {
	case *Term:
		y, ok := b.(*Term)
		if !ok {
			panic(unsupported("ite over mismatched values"))
		}
		return Ite(c, x, y)
	case TupleV:
		y, ok := b.(TupleV)
		if !ok || len(x) != len(y) {
			panic(unsupported("ite over mismatched tuples"))
		}
		out := make(TupleV, len(x))
		for i := range x {
			out[i] = iteValue(c, x[i], y[i])
		}
		return out
	case *Ptr:
		if y, ok := b.(*Ptr); ok && samePtr(x, y) {
			return x
		}
	case *SliceV:
		if y, ok := b.(*SliceV); ok && x.Obj == y.Obj && samePath(x.Path, y.Path) {
			return &SliceV{Obj: x.Obj, Path: x.Path, Off: Ite(c, x.Off, y.Off), Len: Ite(c, x.Len, y.Len), Cap: Ite(c, x.Cap, y.Cap), Str: x.Str}
		}
	case *IfaceV:
		if y, ok := b.(*IfaceV); ok && x.Typ == nil && y.Typ == nil {
			return x
		}
		if y, ok := b.(*IfaceV); ok && x.Typ != nil && y.Typ != nil && types.Identical(x.Typ, y.Typ) {
			return &IfaceV{Typ: x.Typ, Val: iteValue(c, x.Val, y.Val)}
		}
	case *MapV:
		if y, ok := b.(*MapV); ok && x == y {
			return x
		}
	case *FuncV:
		if y, ok := b.(*FuncV); ok && x == y {
			return x
		}
	}
	if a == b {
		return a
	}
	panic(unsupported(fmt.Sprintf("ite over non-scalar values %T / %T", a, b)))
}

func samePath(a, b []PathElem) bool {
	if len(a) != len(b) {
		return false
	}
	for i := range a {
		if a[i].I != b[i].I || a[i].T != b[i].T {
			return false
		}
	}
	return true
}

func samePtr(a, b *Ptr) bool {
	if isNilPtr(a) || isNilPtr(b) {
		return isNilPtr(a) && isNilPtr(b)
	}
	return a.Obj == b.Obj && samePath(a.Path, b.Path) && a.Off == b.Off
}

// getAt loads the value at path inside v.
func getAt(v Value, path []PathElem) Value {
	for k, e := range path {
		tv, ok := v.(TupleV)
		if !ok {
			panic(unsupported(fmt.Sprintf("path through %T", v)))
		}
		if e.T == nil {
			if e.I < 0 || e.I >= len(tv) {
				panic(unsupported("path index out of range"))
			}
			v = tv[e.I]
			continue
		}
		if c, ok := e.T.ConstVal(); ok {
			v = tv[c]
			continue
		}
		// symbolic element index (bounds obligation was checked by the caller): a balanced
		// decision tree over runs of identical elements
		rest := path[k+1:]
		if len(tv) == 0 {
			panic(unsupported("symbolic index into empty array"))
		}
		type run struct {
			end int // exclusive
			v   Value
		}
		var runs []run
		for i := range tv {
			x := getAt(tv[i], rest)
			if n := len(runs); n > 0 {
				if t, ok := x.(*Term); ok && runs[n-1].v == Value(t) {
					runs[n-1].end = i + 1
					continue
				}
			}
			runs = append(runs, run{i + 1, x})
		}
		var build func(lo, hi int) Value
		build = func(lo, hi int) Value {
			if hi-lo == 1 {
				return runs[lo].v
			}
			mid := (lo + hi) / 2
			return iteValue(Ult(e.T, BV(64, uint64(runs[mid-1].end))), build(lo, mid), build(mid, hi))
		}
		return build(0, len(runs))
	}
	return v
}

// setAt returns v with the value at path replaced (under guard g: new = ite(g, nv, old)).
func setAt(v Value, path []PathElem, nv Value, g *Term) Value {
	if len(path) == 0 {
		if g == TTrue {
			return nv
		}
		return iteValue(g, nv, v)
	}
	tv, ok := v.(TupleV)
	if !ok {
		panic(unsupported(fmt.Sprintf("store path through %T", v)))
	}
	e := path[0]
	if e.T == nil || e.T.IsConst() {
		i := e.I
		if e.T != nil {
			i = int(e.T.Val)
		}
		tv[i] = setAt(tv[i], path[1:], nv, g)
		return tv
	}
	for i := range tv {
		tv[i] = setAt(tv[i], path[1:], nv, AndB(g, Eq(e.T, BV(64, uint64(i)))))
	}
	return tv
}

func (p *Ptr) String() string {
	if isNilPtr(p) {
		return "nil"
	}
	return fmt.Sprintf("&obj%d(%s)%v", p.Obj.ID, p.Obj.Name, p.Path)
}

// flatten lists the scalar leaves of a value in memory order.
func flatten(v Value, out *[]Value) {
	if tv, ok := v.(TupleV); ok {
		for _, e := range tv {
			flatten(e, out)
		}
		return
	}
	*out = append(*out, v)
}

// unflatten rebuilds a value shaped like template from leaves (consumed in order).
func unflatten(template Value, leaves *[]Value) Value {
	if tv, ok := template.(TupleV); ok {
		out := make(TupleV, len(tv))
		for i, e := range tv {
			out[i] = unflatten(e, leaves)
		}
		return out
	}
	if len(*leaves) == 0 {
		panic(unsupported("unsafe view: not enough leaves"))
	}
	l := (*leaves)[0]
	*leaves = (*leaves)[1:]
	if a, ok := template.(*Term); ok {
		b, ok := l.(*Term)
		if !ok || a.W != b.W {
			panic(unsupported("unsafe view: scalar leaf kinds differ"))
		}
		return b
	}
	switch template.(type) {
	case *Ptr:
		switch l.(type) {
		case *Ptr:
			return l
		}
		panic(unsupported(fmt.Sprintf("unsafe view: leaf %T where a pointer is expected", l)))
	}
	panic(unsupported(fmt.Sprintf("unsafe view: leaf kind %T", template)))
}

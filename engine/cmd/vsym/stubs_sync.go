package main

// sync, sync/atomic, time, randomness.

import (
	"fmt"
	"go/types"
	"strings"

	"golang.org/x/tools/go/ssa"
)

type mutexState struct {
	held    bool
	readers int
}

func (ex *Exec) mutex(p *Ptr) *mutexState {
	ex.nilCheck(p)
	k := "mutex:" + ptrKey(p)
	m, ok := ex.ghost[k].(*mutexState)
	if !ok {
		m = &mutexState{}
		ex.ghost[k] = m
	}
	return m
}

type wgState struct{ n int64 }

func (ex *Exec) waitgroup(p *Ptr) *wgState {
	ex.nilCheck(p)
	k := "wg:" + ptrKey(p)
	m, ok := ex.ghost[k].(*wgState)
	if !ok {
		m = &wgState{}
		ex.ghost[k] = m
	}
	return m
}

func init() {
	// ---- sync.Mutex / RWMutex
	lock := func(ex *Exec, fn *ssa.Function, args []Value) Value {
		m := ex.mutex(args[0].(*Ptr))
		ex.sched.point()
		ex.sched.block(func() bool { return !m.held && m.readers == 0 })
		m.held = true
		return nil
	}
	unlock := func(ex *Exec, fn *ssa.Function, args []Value) Value {
		m := ex.mutex(args[0].(*Ptr))
		if !m.held {
			ex.oblige(TFalse, "panic:explicit", "sync: unlock of unlocked mutex")
			panic(pathEnd{"violation"})
		}
		m.held = false
		ex.sched.point()
		return nil
	}
	regStub("(*sync.Mutex).Lock", lock)
	regStub("(*sync.Mutex).Unlock", unlock)
	regStub("(*sync.RWMutex).Lock", lock)
	regStub("(*sync.RWMutex).Unlock", unlock)
	regStub("(*sync.Mutex).TryLock", func(ex *Exec, fn *ssa.Function, args []Value) Value {
		m := ex.mutex(args[0].(*Ptr))
		ex.sched.point()
		if m.held || m.readers > 0 {
			return TFalse
		}
		m.held = true
		return TTrue
	})
	regStub("(*sync.RWMutex).RLock", func(ex *Exec, fn *ssa.Function, args []Value) Value {
		m := ex.mutex(args[0].(*Ptr))
		ex.sched.point()
		ex.sched.block(func() bool { return !m.held })
		m.readers++
		return nil
	})
	regStub("(*sync.RWMutex).TryRLock", func(ex *Exec, fn *ssa.Function, args []Value) Value {
		m := ex.mutex(args[0].(*Ptr))
		ex.sched.point()
		if m.held {
			return TFalse
		}
		m.readers++
		return TTrue
	})
	regStub("(*sync.RWMutex).RUnlock", func(ex *Exec, fn *ssa.Function, args []Value) Value {
		m := ex.mutex(args[0].(*Ptr))
		if m.readers <= 0 {
			ex.oblige(TFalse, "panic:explicit", "sync: RUnlock of unlocked RWMutex")
			panic(pathEnd{"violation"})
		}
		m.readers--
		ex.sched.point()
		return nil
	})
	// ---- sync.WaitGroup
	regStub("(*sync.WaitGroup).Add", func(ex *Exec, fn *ssa.Function, args []Value) Value {
		w := ex.waitgroup(args[0].(*Ptr))
		d, ok := args[1].(*Term).ConstVal()
		if !ok {
			panic(unsupported("WaitGroup.Add symbolic"))
		}
		w.n += int64(d)
		if w.n < 0 {
			ex.oblige(TFalse, "panic:explicit", "sync: negative WaitGroup counter")
			panic(pathEnd{"violation"})
		}
		return nil
	})
	regStub("(*sync.WaitGroup).Done", func(ex *Exec, fn *ssa.Function, args []Value) Value {
		w := ex.waitgroup(args[0].(*Ptr))
		w.n--
		if w.n < 0 {
			ex.oblige(TFalse, "panic:explicit", "sync: negative WaitGroup counter")
			panic(pathEnd{"violation"})
		}
		ex.sched.point()
		return nil
	})
	regStub("(*sync.WaitGroup).Wait", func(ex *Exec, fn *ssa.Function, args []Value) Value {
		w := ex.waitgroup(args[0].(*Ptr))
		ex.sched.point()
		ex.sched.block(func() bool { return w.n == 0 })
		return nil
	})
	regStub("(*sync.WaitGroup).Go", func(ex *Exec, fn *ssa.Function, args []Value) Value {
		w := ex.waitgroup(args[0].(*Ptr))
		w.n++
		f := args[1].(*FuncV)
		wrapper := &FuncV{Name: "wg.Go", Native: func(ex *Exec, a []Value) Value {
			ex.callValue(f, nil, nil)
			w.n--
			ex.sched.point()
			return nil
		}}
		ex.ghost["spawnInner"] = f
		ex.sched.spawn(wrapper, nil, nil)
		ex.ghost["spawnInner"] = (*FuncV)(nil)
		return nil
	})
	// ---- sync.Once / OnceFunc / Pool
	regStub("(*sync.Once).Do", func(ex *Exec, fn *ssa.Function, args []Value) Value {
		p := args[0].(*Ptr)
		ex.nilCheck(p)
		k := "once:" + ptrKey(p)
		if ex.ghost[k] != nil {
			return nil
		}
		ex.ghost[k] = true
		ex.callValue(args[1], nil, nil)
		return nil
	})
	regStub("sync.OnceFunc", func(ex *Exec, fn *ssa.Function, args []Value) Value {
		f := args[0]
		done := false
		return &FuncV{Name: "oncefunc", Native: func(ex *Exec, a []Value) Value {
			if done {
				return nil
			}
			done = true
			ex.callValue(f, nil, nil)
			return nil
		}}
	})
	regStub("(*sync.Pool).Get", func(ex *Exec, fn *ssa.Function, args []Value) Value {
		p := args[0].(*Ptr)
		ex.nilCheck(p)
		pool := getAt(p.Obj.Val, p.Path).(TupleV)
		// field New is the last field of sync.Pool
		nf, _ := pool[len(pool)-1].(*FuncV)
		if nf == nil {
			return &IfaceV{}
		}
		return ex.callValue(nf, nil, nil)
	})
	regStub("(*sync.Pool).Put", noop)

	// ---- sync/atomic primitives (each is one atomic step and a scheduling point)
	for _, ty := range []string{"Int32", "Int64", "Uint32", "Uint64", "Uintptr", "Pointer"} {
		regStub("sync/atomic.Load"+ty, func(ex *Exec, fn *ssa.Function, args []Value) Value {
			ex.sched.point()
			p := args[0].(*Ptr)
			ex.nilCheck(p)
			return ex.load(p, fn.Signature.Results().At(0).Type())
		})
		regStub("sync/atomic.Store"+ty, func(ex *Exec, fn *ssa.Function, args []Value) Value {
			ex.sched.point()
			ex.ptrStoreVal(args[0].(*Ptr), args[1])
			return nil
		})
		regStub("sync/atomic.Swap"+ty, func(ex *Exec, fn *ssa.Function, args []Value) Value {
			ex.sched.point()
			p := args[0].(*Ptr)
			ex.nilCheck(p)
			old := ex.load(p, fn.Signature.Results().At(0).Type())
			ex.ptrStoreVal(p, args[1])
			return old
		})
		regStub("sync/atomic.CompareAndSwap"+ty, func(ex *Exec, fn *ssa.Function, args []Value) Value {
			ex.sched.point()
			p := args[0].(*Ptr)
			ex.nilCheck(p)
			cur := ex.load(p, fn.Signature.Params().At(1).Type())
			eq := ex.equalValues(cur, args[1])
			if ex.branch(eq) {
				ex.ptrStoreVal(p, args[2])
				return TTrue
			}
			return TFalse
		})
		if ty != "Pointer" {
			regStub("sync/atomic.Add"+ty, func(ex *Exec, fn *ssa.Function, args []Value) Value {
				ex.sched.point()
				p := args[0].(*Ptr)
				nv := Add(ex.ptrLoadTerm(p), args[1].(*Term))
				ex.ptrStoreVal(p, nv)
				return nv
			})
			regStub("sync/atomic.And"+ty, func(ex *Exec, fn *ssa.Function, args []Value) Value {
				ex.sched.point()
				p := args[0].(*Ptr)
				old := ex.ptrLoadTerm(p)
				ex.ptrStoreVal(p, And(old, args[1].(*Term)))
				return old
			})
			regStub("sync/atomic.Or"+ty, func(ex *Exec, fn *ssa.Function, args []Value) Value {
				ex.sched.point()
				p := args[0].(*Ptr)
				old := ex.ptrLoadTerm(p)
				ex.ptrStoreVal(p, Or(old, args[1].(*Term)))
				return old
			})
		}
	}
	// atomic.Value: stored as an interface cell in ghost state
	regStub("(*sync/atomic.Value).Load", func(ex *Exec, fn *ssa.Function, args []Value) Value {
		ex.sched.point()
		p := args[0].(*Ptr)
		ex.nilCheck(p)
		if v, ok := ex.ghost["aval:"+ptrKey(p)].(*IfaceV); ok {
			return v
		}
		return &IfaceV{}
	})
	regStub("(*sync/atomic.Value).Store", func(ex *Exec, fn *ssa.Function, args []Value) Value {
		ex.sched.point()
		p := args[0].(*Ptr)
		ex.nilCheck(p)
		ex.ghost["aval:"+ptrKey(p)] = args[1].(*IfaceV)
		return nil
	})

	// ---- context (only never-cancelled contexts unless a harness installs its own)
	regStub("context.AfterFunc", func(ex *Exec, fn *ssa.Function, args []Value) Value {
		ctx := args[0].(*IfaceV)
		if ctx.Typ != nil && (ctx.Typ.String() == "context.backgroundCtx" || ctx.Typ.String() == "context.todoCtx") {
			return &FuncV{Name: "stop", Native: func(ex *Exec, a []Value) Value { return TTrue }}
		}
		panic(unsupported("context.AfterFunc on a cancellable context: " + ctx.Typ.String()))
	})

	regStub("context.WithTimeout", func(ex *Exec, fn *ssa.Function, args []Value) Value {
		// deadlines never fire by themselves: the child is the parent, cancel is a no-op
		return TupleV{args[0], &FuncV{Name: "cancel", Native: func(ex *Exec, a []Value) Value { return nil }}}
	})
	regStub("context.WithDeadline", exactStubs["context.WithTimeout"])
	regStub("context.WithCancel", func(ex *Exec, fn *ssa.Function, args []Value) Value {
		// a harness-cancellable context: Done() is a channel closed by cancel()
		done := ex.newChan(0, types.NewStruct(nil, nil))
		ctxT := ex.namedType("context", "cancelCtx")
		o := ex.newCells(ctxT, ex.zero(ctxT), "cancelCtx")
		ex.ghost["ctxdone:"+fmt.Sprint(o.ID)] = done
		cancel := &FuncV{Name: "cancel", Native: func(ex *Exec, a []Value) Value {
			if !done.closed {
				ex.sched.point()
				done.closed = true
			}
			return nil
		}}
		return TupleV{&IfaceV{Typ: types.NewPointer(ctxT), Val: &Ptr{Obj: o}}, cancel}
	})
	regStub("(*context.cancelCtx).Done", func(ex *Exec, fn *ssa.Function, args []Value) Value {
		p := args[0].(*Ptr)
		if c, ok := ex.ghost["ctxdone:"+fmt.Sprint(p.Obj.ID)].(*ChanV); ok {
			return c
		}
		return (*ChanV)(nil)
	})
	regStub("(*context.cancelCtx).Err", func(ex *Exec, fn *ssa.Function, args []Value) Value {
		p := args[0].(*Ptr)
		if c, ok := ex.ghost["ctxdone:"+fmt.Sprint(p.Obj.ID)].(*ChanV); ok && c.closed {
			return ex.cachedError("context canceled")
		}
		return &IfaceV{}
	})
	// ---- timers and tickers: owned by the harness, fired by vfTick / vfFireTimers
	regStub("time.NewTicker", func(ex *Exec, fn *ssa.Function, args []Value) Value {
		tt := ex.namedType("time", "Time")
		c := ex.newChan(1, tt)
		tk := ex.namedType("time", "Ticker")
		v := ex.zero(tk).(TupleV)
		v[0] = c
		tickers, _ := ex.ghost["tickers"].([]*ChanV)
		ex.ghost["tickers"] = append(tickers, c)
		return &Ptr{Obj: ex.newCells(tk, v, "ticker")}
	})
	regStub("(*time.Ticker).Stop", noop)
	regStub("(*time.Ticker).Reset", noop)
	regStub("time.After", func(ex *Exec, fn *ssa.Function, args []Value) Value {
		tt := ex.namedType("time", "Time")
		c := ex.newChan(1, tt)
		timers, _ := ex.ghost["timers"].([]*ChanV)
		ex.ghost["timers"] = append(timers, c)
		return c
	})
	// time.AfterFunc: the callback runs on its own goroutine when the harness fires the timers
	regStub("time.AfterFunc", func(ex *Exec, fn *ssa.Function, args []Value) Value {
		tk := ex.namedType("time", "Timer")
		o := ex.newCells(tk, ex.zero(tk), "timer")
		afs, _ := ex.ghost["afterfuncs"].([]*afterFunc)
		ex.ghost["afterfuncs"] = append(afs, &afterFunc{obj: o, f: args[1]})
		return &Ptr{Obj: o}
	})
	regStub("(*time.Timer).Stop", func(ex *Exec, fn *ssa.Function, args []Value) Value {
		p := args[0].(*Ptr)
		ex.nilCheck(p)
		afs, _ := ex.ghost["afterfuncs"].([]*afterFunc)
		for _, a := range afs {
			if a.obj == p.Obj {
				if a.state == 0 {
					a.state = 2
					return Bool(true)
				}
				return Bool(false)
			}
		}
		return Bool(false)
	})
	suffixStubs["vfTick"] = func(ex *Exec, fn *ssa.Function, args []Value) Value {
		// deliver one tick on every ticker created so far (dropped when the previous one is still pending, as in Go)
		tickers, _ := ex.ghost["tickers"].([]*ChanV)
		for _, c := range tickers {
			if len(c.buf) < c.size {
				c.buf = append(c.buf, ex.timeNow())
			}
		}
		return nil
	}
	suffixStubs["vfFireTimers"] = func(ex *Exec, fn *ssa.Function, args []Value) Value {
		timers, _ := ex.ghost["timers"].([]*ChanV)
		for _, c := range timers {
			if len(c.buf) < c.size {
				c.buf = append(c.buf, ex.timeNow())
			}
		}
		ex.ghost["timers"] = nil
		afs, _ := ex.ghost["afterfuncs"].([]*afterFunc)
		for _, a := range afs {
			if a.state == 0 {
				a.state = 1
				ex.ghost["nextGoName"] = fmt.Sprintf("timer%d", a.obj.ID)
				ex.sched.spawn(a.f.(*FuncV), nil, nil)
			}
		}
		return nil
	}
	suffixStubs["vfSettle"] = func(ex *Exec, fn *ssa.Function, args []Value) Value {
		// let every other goroutine run until all of them are blocked or finished
		for i := 0; i < 100000; i++ {
			next := ex.sched.pickNext(true)
			if next == nil {
				return nil
			}
			ex.sched.logSwitch("settle", 0, next, "settle")
			ex.sched.switchTo(next)
		}
		panic(unsupported("vfSettle: other goroutines never block"))
	}
	suffixStubs["vfCancelContext"] = func(ex *Exec, fn *ssa.Function, args []Value) Value {
		return exactStubs["context.WithCancel"](ex, fn, []Value{&IfaceV{}})
	}
	suffixStubs["vfSchedule"] = func(ex *Exec, fn *ssa.Function, args []Value) Value {
		n, _ := args[0].(*Term).ConstVal()
		ex.sched.symbolic = true
		ex.sched.preempt = int(n)
		return nil
	}
	suffixStubs["vfGo"] = func(ex *Exec, fn *ssa.Function, args []Value) Value {
		ex.ghost["nextGoName"] = ex.argString(args[0])
		ex.ghost["nextGoHarness"] = true
		ex.sched.spawn(args[1].(*FuncV), nil, nil)
		return nil
	}
	suffixStubs["vfJoin"] = func(ex *Exec, fn *ssa.Function, args []Value) Value {
		// wait until every goroutine started with vfGo has finished (as the native sync.WaitGroup does)
		s := ex.sched
		s.block(func() bool {
			for _, g := range s.gs[1:] {
				if g.harness && !g.done {
					return false
				}
			}
			return true
		})
		return nil
	}
	suffixStubs["vfPreemptOnAccess"] = func(ex *Exec, fn *ssa.Function, args []Value) Value {
		if iv, ok := args[0].(*IfaceV); ok {
			if p, ok := iv.Val.(*Ptr); ok && !isNilPtr(p) {
				p.Obj.Watch = true
			}
		}
		return nil
	}

	// ---- randomness
	regStub("crypto/rand.Read", func(ex *Exec, fn *ssa.Function, args []Value) Value {
		b := args[0].(*SliceV)
		if b.Obj != nil {
			name := ex.freshName("rand")
			fl := freshLayer(name)
			// outputs of the CSPRNG of at least 8 bytes are assumed pairwise distinct
			if n, ok := b.Len.ConstVal(); ok && n >= 8 && n <= 64 {
				cur := make([]*Term, n)
				for i := range cur {
					cur[i] = Select(name, BV(64, uint64(i)))
				}
				prev, _ := ex.ghost["randOutputs"].([][]*Term)
				for _, p := range prev {
					if len(p) == len(cur) {
						ex.assume(Not(eqAll(p, cur)))
					}
				}
				ex.ghost["randOutputs"] = append(prev, cur)
			}
			if b.Obj.IsBytes {
				b.Obj.Top = b.Obj.Top.copyFrom(b.Off, fl, BV(64, 0), b.Len)
			} else {
				n, ok := b.Len.ConstVal()
				if !ok {
					panic(unsupported("rand.Read into cells of symbolic length"))
				}
				for i := uint64(0); i < n; i++ {
					ex.writeElem(b, BV(64, i), Select(name, BV(64, i)))
				}
			}
		}
		return TupleV{b.Len, &IfaceV{}}
	})
	regStub("math/rand/v2.IntN", func(ex *Exec, fn *ssa.Function, args []Value) Value {
		n := args[0].(*Term)
		ex.oblige(Sgt(n, BV(64, 0)), "panic:explicit", "invalid argument to IntN")
		r := ex.freshVar("randIntN", 64)
		ex.assume(AndB(Sge(r, BV(64, 0)), Slt(r, n)))
		return r
	})
	regStub("math/rand/v2.Uint64", func(ex *Exec, fn *ssa.Function, args []Value) Value { return ex.freshVar("randU64", 64) })
	regStub("math/rand/v2.Uint32", func(ex *Exec, fn *ssa.Function, args []Value) Value { return ex.freshVar("randU32", 32) })
	regStub("math/rand/v2.Uint64N", func(ex *Exec, fn *ssa.Function, args []Value) Value {
		n := args[0].(*Term)
		ex.oblige(Not(Eq(n, BV(64, 0))), "panic:explicit", "invalid argument to Uint64N")
		r := ex.freshVar("randU64N", 64)
		ex.assume(Ult(r, n))
		return r
	})
	regStub("math/rand/v2.N", func(ex *Exec, fn *ssa.Function, args []Value) Value {
		n := args[0].(*Term)
		r := ex.freshVar("randN", n.W)
		ex.oblige(Sgt(n, BV(n.W, 0)), "panic:explicit", "invalid argument to N")
		ex.assume(AndB(Sge(r, BV(n.W, 0)), Slt(r, n)))
		return r
	})

	// ---- time: wall-clock only Time values driven by the harness clock
	regStub("time.Now", func(ex *Exec, fn *ssa.Function, args []Value) Value { return ex.timeNow() })
	regStub("time.Since", func(ex *Exec, fn *ssa.Function, args []Value) Value {
		return ex.timeSub(ex.timeNow(), args[0].(TupleV))
	})
	regStub("time.Until", func(ex *Exec, fn *ssa.Function, args []Value) Value {
		return ex.timeSub(args[0].(TupleV), ex.timeNow())
	})
	regStub("(time.Time).Sub", func(ex *Exec, fn *ssa.Function, args []Value) Value {
		return ex.timeSub(args[0].(TupleV), args[1].(TupleV))
	})
	suffixStubs["vfClock"] = func(ex *Exec, fn *ssa.Function, args []Value) Value {
		// vfClock(sec int64, nsec int64): sets the wall clock
		ex.ghost["clock.sec"] = args[0].(*Term)
		ex.ghost["clock.nsec"] = args[1].(*Term)
		return nil
	}
}

// afterFunc is a pending time.AfterFunc timer (state 0 pending, 1 fired, 2 stopped).
type afterFunc struct {
	obj   *Object
	f     Value
	state int
}

func (ex *Exec) freshName(prefix string) string {
	ex.fresh[prefix]++
	return fmt.Sprintf("%s!%d", prefix, ex.fresh[prefix])
}

// timeNow builds time.Time{wall: nsec, ext: sec + unixToInternal, loc: Local(=nil here)} without monotonic reading.
func (ex *Exec) timeNow() TupleV {
	sec, _ := ex.ghost["clock.sec"].(*Term)
	nsec, _ := ex.ghost["clock.nsec"].(*Term)
	if sec == nil {
		// no harness clock: an arbitrary but fixed instant in [2000, 2100]
		sec, _ = ex.ghost["clock.default.sec"].(*Term)
		if sec == nil {
			sec = Var("clock_sec", 64)
			nsec = Var("clock_nsec", 64)
			ex.assume(AndB(Sge(sec, BV(64, 946684800)), Sle(sec, BV(64, 4102444800)), Ult(nsec, BV(64, 1000000000))))
			ex.ghost["clock.default.sec"] = sec
			ex.ghost["clock.default.nsec"] = nsec
		} else {
			nsec = ex.ghost["clock.default.nsec"].(*Term)
		}
	}
	const unixToInternal = (1969*365 + 1969/4 - 1969/100 + 1969/400) * 86400
	tt := ex.namedType("time", "Time")
	st := tt.Underlying().(*types.Struct)
	tv := make(TupleV, st.NumFields())
	for i := 0; i < st.NumFields(); i++ {
		switch st.Field(i).Name() {
		case "wall":
			tv[i] = ZExt(Extract(nsec, 29, 0), 64) // nsec < 2^30; the monotonic-clock flag (bit 63) is concretely clear
		case "ext":
			tv[i] = Add(sec, BV(64, unixToInternal))
		default:
			tv[i] = ex.zero(st.Field(i).Type())
		}
	}
	return tv
}

// timeParts returns (sec since year 1, nsec) of a time.Time value as 64-bit terms.
func (ex *Exec) timeParts(t TupleV) (*Term, *Term) {
	wall, ext := t[0].(*Term), t[1].(*Term)
	hasMono := Not(Eq(Extract(wall, 63, 63), BV(1, 0)))
	const wallToInternal = (1884*365 + 1884/4 - 1884/100 + 1884/400) * 86400
	nsec := ZExt(Extract(wall, 29, 0), 64)
	secMono := Add(BV(64, wallToInternal), ZExt(Extract(wall, 62, 30), 64))
	sec := Ite(hasMono, secMono, ext)
	return sec, nsec
}

// timeSub models time.Time.Sub for wall-clock times: (t.sec-u.sec)*1e9 + (t.nsec-u.nsec), saturated.
func (ex *Exec) timeSub(t, u TupleV) *Term {
	ts, tn := ex.timeParts(t)
	us, un := ex.timeParts(u)
	ds := Sub(ts, us)
	// saturate when |ds| is beyond what fits in int64 nanoseconds (~292 years)
	const lim = 9223372036 // seconds
	big := Sgt(ds, BV(64, lim-1))
	small := Slt(ds, BV(64, uint64(^uint64(lim-1)+1)+1))
	d := Add(Mul(ds, BV(64, 1000000000)), Sub(tn, un))
	return Ite(big, BV(64, 1<<63-1), Ite(small, BV(64, 1<<63), d))
}

var _ = strings.HasPrefix

package main

// Source instrumentation for the native replay of schedules: vfSched("<id>") calls are inserted
// before the statements that start at (or, failing that, contain) the recorded lines.

import (
	"bytes"
	"go/ast"
	"go/parser"
	"go/printer"
	"go/token"
)

// instrumentSource inserts vfSched("<id>") before the statements at the given lines and, for
// every function literal started as a goroutine (go func(){...}() or x.Go(func(){...})) whose
// line is in goSites, `defer vfGoSite("<rel>:<line>")()` as its first statement.
func instrumentSource(filename string, src []byte, lines map[int]string, goSites map[int]string) ([]byte, error) {
	fset := token.NewFileSet()
	f, err := parser.ParseFile(fset, filename, src, parser.ParseComments)
	if err != nil {
		return nil, err
	}
	markLit := func(e ast.Expr) {
		lit, ok := e.(*ast.FuncLit)
		if !ok {
			return
		}
		site, ok := goSites[fset.Position(lit.Pos()).Line]
		if !ok {
			return
		}
		call := &ast.DeferStmt{Call: &ast.CallExpr{Fun: &ast.CallExpr{Fun: ast.NewIdent("vfGoSite"), Args: []ast.Expr{&ast.BasicLit{Kind: token.STRING, Value: `"` + site + `"`}}}}}
		lit.Body.List = append([]ast.Stmt{call}, lit.Body.List...)
	}
	if len(goSites) > 0 {
		ast.Inspect(f, func(n ast.Node) bool {
			switch x := n.(type) {
			case *ast.GoStmt:
				markLit(x.Call.Fun)
			case *ast.CallExpr:
				if sel, ok := x.Fun.(*ast.SelectorExpr); ok && sel.Sel.Name == "Go" && len(x.Args) == 1 {
					markLit(x.Args[0])
				}
			}
			return true
		})
	}
	done := map[int]bool{}
	mkCall := func(id string) ast.Stmt {
		return &ast.ExprStmt{X: &ast.CallExpr{Fun: ast.NewIdent("vfSched"), Args: []ast.Expr{&ast.BasicLit{Kind: token.STRING, Value: `"` + id + `"`}}}}
	}
	rewrite := func(list []ast.Stmt, exact bool) []ast.Stmt {
		var out []ast.Stmt
		for _, st := range list {
			start, end := fset.Position(st.Pos()).Line, fset.Position(st.End()).Line
			for line, id := range lines {
				if done[line] {
					continue
				}
				// labeled statements and declarations are left alone
				if _, isLabel := st.(*ast.LabeledStmt); isLabel {
					continue
				}
				if exact && start == line || !exact && start <= line && line <= end && isLeaf(st) {
					out = append(out, mkCall(id))
					done[line] = true
				}
			}
			out = append(out, st)
		}
		return out
	}
	for _, exact := range []bool{true, false} {
		ast.Inspect(f, func(n ast.Node) bool {
			switch x := n.(type) {
			case *ast.BlockStmt:
				x.List = rewrite(x.List, exact)
			case *ast.CaseClause:
				x.Body = rewrite(x.Body, exact)
			case *ast.CommClause:
				x.Body = rewrite(x.Body, exact)
			}
			return true
		})
	}
	var buf bytes.Buffer
	if err := printer.Fprint(&buf, fset, f); err != nil {
		return nil, err
	}
	return buf.Bytes(), nil
}

func isLeaf(st ast.Stmt) bool {
	switch st.(type) {
	case *ast.BlockStmt, *ast.IfStmt, *ast.ForStmt, *ast.RangeStmt, *ast.SwitchStmt, *ast.TypeSwitchStmt, *ast.SelectStmt:
		return false
	}
	return true
}

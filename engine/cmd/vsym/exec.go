package main

import (
	"fmt"
	"go/constant"
	"go/token"
	"go/types"
	"os"
	"runtime"
	"sort"
	"strings"

	"golang.org/x/tools/go/ssa"
)

type unsupportedErr struct{ msg string }

func unsupported(msg string) unsupportedErr { return unsupportedErr{msg} }

type pathEnd struct{ reason string }

type Finding struct {
	Kind   string // panic:index, assert, ...
	Label  string
	Pos    string
	Stack  []string
	Model  *Model
	Inputs map[string]string // named harness inputs under the model
	Count  int
	Known  string // label of the known finding that covers it ("" = none)
	PC     []*Term
	Goal   *Term
	Sched  *SchedInfo
}

type SchedInfo struct {
	Points   []string      `json:"points"`
	Switches []SchedSwitch `json:"switches"`
}

type Frame struct {
	fn       *ssa.Function
	env      map[ssa.Value]Value
	bindings []Value
	defers   []func()
	symIf    map[ssa.Instruction]int
	caller   *Frame
	pos      token.Pos
	g        *Goroutine
}

type Exec struct {
	prog   *ssa.Program
	solver *Solver
	fset   *token.FileSet

	// exploration
	worklist  [][]int
	siteWork  [][]uint32
	decisions []int
	sites     []uint32 // per decision: a fingerprint of the choice point (divergence detector)
	dpos      int
	pc        []*Term

	// per path
	globals     map[*ssa.Global]*Object
	initDone    map[*ssa.Package]bool
	specDepth   int
	specObjBase int
	specFailed  map[ssa.Instruction]bool
	noSpec      bool
	Merged      int
	condMemo    map[*Term]*Term
	boundMemo   map[*Term]*termBounds
	noResolve   bool
	Resolved    int
	initLenient int
	randSeed    uint64 // differential mode: seed for inputs missing from the concrete vector
	curInitFn   *ssa.Function
	fresh       map[string]int
	inputs      []inputVar
	steps       int
	strConst    map[string]*Object
	ghost       map[string]interface{}
	curFrame    *Frame
	sched       *Sched

	// config
	unwind   int
	maxSteps int
	maxPaths int
	harness  string
	pkgRel   string // package directory relative to the repository root
	caseVals map[string]int64
	verbose  bool
	concrete map[string]string // concrete input vector (differential mode)

	// results
	Paths        int
	PathsEnded   map[string]int
	Findings     map[string]*Finding
	Obligations  int
	Discharged   int
	Trivial      int
	Inconclusive []string
	Reached      map[string]int
	ReachSample  map[string]map[string]string
	FuncsEntered map[string]bool
	StubsUsed    map[string]int
	Branches     int
	Observed     []string
	knownLabels  map[string]string // label -> status
	curKnown     []knownPred
}

type knownPred struct {
	label string
	cond  *Term
}

type inputVar struct {
	name string
	t    *Term  // scalar
	arr  string // byte array name
	n    *Term  // byte array length
}

func (ex *Exec) posStr(p token.Pos) string {
	if !p.IsValid() {
		return "?"
	}
	ps := ex.fset.Position(p)
	f := ps.Filename
	if strings.HasPrefix(f, repoDir+"/") {
		f = f[len(repoDir)+1:]
	} else if i := strings.Index(f, "/src/"); i >= 0 {
		f = f[i+5:]
	}
	return fmt.Sprintf("%s:%d", f, ps.Line)
}

func (ex *Exec) stack() []string {
	var out []string
	for f := ex.curFrame; f != nil && len(out) < 12; f = f.caller {
		out = append(out, fmt.Sprintf("%s (%s)", f.fn.String(), ex.posStr(f.pos)))
	}
	return out
}

// ---------------------------------------------------------------- exploration

func (ex *Exec) Explore(entry *ssa.Function) {
	ex.worklist = [][]int{{}}
	ex.siteWork = [][]uint32{{}}
	for len(ex.worklist) > 0 {
		if ex.maxPaths > 0 && ex.Paths >= ex.maxPaths {
			ex.Inconclusive = append(ex.Inconclusive, fmt.Sprintf("path budget %d exhausted with %d pending", ex.maxPaths, len(ex.worklist)))
			break
		}
		n := len(ex.worklist) - 1
		prefix := ex.worklist[n]
		ex.worklist = ex.worklist[:n]
		ex.sites = append([]uint32{}, ex.siteWork[n]...)
		ex.siteWork = ex.siteWork[:n]
		ex.runPath(entry, prefix)
	}
}

func (ex *Exec) siteFP(n int) uint32 {
	return uint32(n)<<24 ^ uint32(ex.curPos())&0xffffff
}

// checkSite verifies, while a decision prefix is replayed, that the choice point is the one the
// decision was recorded at.
func (ex *Exec) checkSite(n int) {
	if ex.dpos < len(ex.sites) && ex.sites[ex.dpos] != ex.siteFP(n) {
		panic(unsupported("replay of a decision prefix diverged (engine nondeterminism)"))
	}
}

func (ex *Exec) pushAlt(alt int, n int) {
	d := append(append([]int{}, ex.decisions[:ex.dpos]...), alt)
	st := append(append([]uint32{}, ex.sites[:min(ex.dpos, len(ex.sites))]...), ex.siteFP(n))
	ex.worklist = append(ex.worklist, d)
	ex.siteWork = append(ex.siteWork, st)
}

func (ex *Exec) recordDecision(choice, n int) {
	ex.decisions = append(ex.decisions[:ex.dpos], choice)
	ex.sites = append(ex.sites[:min(ex.dpos, len(ex.sites))], ex.siteFP(n))
	ex.dpos++
}

func (ex *Exec) resetPath(prefix []int) {
	ex.decisions = append([]int{}, prefix...)
	ex.dpos = 0
	ex.pc = nil
	ex.globals = map[*ssa.Global]*Object{}
	ex.initDone = map[*ssa.Package]bool{}
	ex.fresh = map[string]int{}
	ex.inputs = nil
	ex.steps = 0
	ex.strConst = map[string]*Object{}
	ex.ghost = map[string]interface{}{}
	ex.curFrame = nil
	ex.curKnown = nil
	ex.sched = nil
	ex.initLenient = 0
	ex.condMemo = map[*Term]*Term{}
	ex.boundMemo = map[*Term]*termBounds{}
	ex.specDepth = 0
	// per path: a memo shared across paths would make the replay of a decision prefix diverge
	ex.specFailed = map[ssa.Instruction]bool{}
	condResolver = ex.resolveCond
}

type termBounds struct {
	hasLo, hasHi bool
	lo, hi       uint64 // proven under the path condition: lo <= t <= hi (unsigned)
}

func (ex *Exec) boundsFor(t *Term) *termBounds {
	b, ok := ex.boundMemo[t]
	if !ok {
		b = &termBounds{}
		ex.boundMemo[t] = b
	}
	return b
}

// resolveCond returns TTrue / TFalse when the path condition decides c, else c itself.
// Results are memoised per path (the path condition only grows, so a decided condition stays decided).
func (ex *Exec) resolveCond(c *Term) *Term {
	if ex.noResolve {
		return c
	}
	if r, ok := ex.condMemo[c]; ok {
		return r
	}
	// monotone families: k <u t and t <u k for constants k
	if c.Op == OpUlt {
		if k, ok := c.Args[0].ConstVal(); ok {
			b := ex.boundsFor(c.Args[1])
			if b.hasLo && k < b.lo { // proven: lo <= t
				return TTrue
			}
			if b.hasHi && k >= b.hi { // proven: t <= hi
				return TFalse
			}
		} else if k, ok := c.Args[1].ConstVal(); ok {
			b := ex.boundsFor(c.Args[0])
			if b.hasHi && b.hi < k {
				return TTrue
			}
			if b.hasLo && b.lo >= k {
				return TFalse
			}
		}
	}
	r := c
	defer func() {
		// learn bounds from decided comparisons with constants
		if c.Op != OpUlt || (r != TTrue && r != TFalse) {
			return
		}
		if k, ok := c.Args[0].ConstVal(); ok { // k <u t
			b := ex.boundsFor(c.Args[1])
			if r == TTrue && (!b.hasLo || k+1 > b.lo) {
				b.hasLo, b.lo = true, k+1
			}
			if r == TFalse && (!b.hasHi || k < b.hi) {
				b.hasHi, b.hi = true, k
			}
		} else if k, ok := c.Args[1].ConstVal(); ok { // t <u k
			b := ex.boundsFor(c.Args[0])
			if r == TTrue && k > 0 && (!b.hasHi || k-1 < b.hi) {
				b.hasHi, b.hi = true, k-1
			}
			if r == TFalse && (!b.hasLo || k > b.lo) {
				b.hasLo, b.lo = true, k
			}
		}
	}()
	if ex.solver.Check(ex.pc, c) == Unsat {
		r = TFalse
	} else if ex.solver.Check(ex.pc, Not(c)) == Unsat {
		r = TTrue
	}
	ex.condMemo[c] = r
	ex.Resolved++
	if condLog != nil {
		fmt.Fprintf(condLog, "%v\t%s\n", r == c, smtInline(c, 3))
	}
	return r
}

func (ex *Exec) runPath(entry *ssa.Function, prefix []int) {
	ex.resetPath(prefix)
	ex.Paths++
	reason := "return"
	func() {
		defer func() {
			if r := recover(); r != nil {
				switch e := r.(type) {
				case pathEnd:
					reason = e.reason
				case unsupportedErr:
					reason = "unsupported"
					msg := fmt.Sprintf("UNSUPPORTED %s at %s", e.msg, strings.Join(ex.stack(), " <- "))
					ex.addInconclusive(msg)
				case runtime.Error:
					reason = "unsupported"
					buf := make([]byte, 4096)
					buf = buf[:runtime.Stack(buf, false)]
					msg := fmt.Sprintf("UNSUPPORTED (engine: %v) at %s", e, strings.Join(ex.stack(), " <- "))
					if ex.verbose {
						msg += "\n" + string(buf)
					}
					ex.addInconclusive(msg)
				default:
					panic(r)
				}
			}
		}()
		ex.runMain(entry)
	}()
	if ex.sched != nil {
		ex.sched.killAll()
	}
	ex.PathsEnded[reason]++
	if ex.verbose {
		fmt.Fprintf(os.Stderr, "path %d ended: %s (decisions %v)\n", ex.Paths, reason, ex.decisions)
	}
}

func (ex *Exec) addInconclusive(msg string) {
	for _, m := range ex.Inconclusive {
		if m == msg {
			return
		}
	}
	if len(ex.Inconclusive) < 50 {
		ex.Inconclusive = append(ex.Inconclusive, msg)
	}
}

func (ex *Exec) assume(c *Term) {
	if c == TTrue {
		return
	}
	if ex.specDepth > 0 {
		panic(specAbort{})
	}
	ex.pc = append(ex.pc, c)
}

// choose picks one of the alternatives whose guards are conds; pushes the other feasible ones.
func (ex *Exec) choose(conds []*Term) int {
	// concrete fast path
	nTrue, idx := 0, -1
	allConst := true
	for i, c := range conds {
		if c == TTrue {
			nTrue++
			if idx < 0 {
				idx = i
			}
		} else if c != TFalse {
			allConst = false
		}
	}
	if allConst {
		if idx < 0 {
			panic(pathEnd{"infeasible"})
		}
		return idx
	}
	if ex.initLenient > 0 {
		// package initialisers never fork a path: what depends on unknown data stays opaque
		panic(unsupported("branch on unknown data inside a package initialiser"))
	}
	if ex.specDepth > 0 {
		panic(specAbort{})
	}
	ex.Branches++
	if ex.dpos < len(ex.decisions) {
		ex.checkSite(len(conds))
		i := ex.decisions[ex.dpos]
		ex.dpos++
		if i >= len(conds) {
			panic(unsupported("replay of a decision prefix diverged (engine nondeterminism)"))
		}
		ex.assume(conds[i])
		return i
	}
	var feas []int
	for i, c := range conds {
		if c == TFalse {
			continue
		}
		// if all others were infeasible the last one must be feasible (pc is satisfiable)
		if i == len(conds)-1 && len(feas) == 0 {
			feas = append(feas, i)
			break
		}
		r := ex.solver.Check(ex.pc, c)
		if r == Unknown {
			ex.addInconclusive("feasibility query unknown at " + ex.posStr(ex.curPos()) + " (branch kept)")
		}
		if r != Unsat {
			feas = append(feas, i)
		}
	}
	if len(feas) == 0 {
		panic(pathEnd{"infeasible"})
	}
	for _, i := range feas[1:] {
		ex.pushAlt(i, len(conds))
	}
	ex.recordDecision(feas[0], len(conds))
	ex.assume(conds[feas[0]])
	return feas[0]
}

// chooseN is a free n-way choice (scheduler, crash points).
func (ex *Exec) chooseN(n int) int {
	if n == 1 {
		return 0
	}
	if ex.initLenient > 0 {
		panic(unsupported("choice inside a package initialiser"))
	}
	if ex.specDepth > 0 {
		panic(specAbort{})
	}
	ex.Branches++
	if ex.dpos < len(ex.decisions) {
		ex.checkSite(n)
		i := ex.decisions[ex.dpos]
		ex.dpos++
		if i >= n {
			panic(unsupported("replay of a decision prefix diverged (engine nondeterminism)"))
		}
		return i
	}
	for i := 1; i < n; i++ {
		ex.pushAlt(i, n)
	}
	ex.recordDecision(0, n)
	return 0
}

func (ex *Exec) branch(c *Term) bool {
	if c == TTrue {
		return true
	}
	if c == TFalse {
		return false
	}
	return ex.choose([]*Term{c, Not(c)}) == 0
}

func (ex *Exec) curPos() token.Pos {
	if ex.curFrame != nil {
		return ex.curFrame.pos
	}
	return token.NoPos
}

// oblige checks that cond holds on every input reaching this point.
func (ex *Exec) oblige(cond *Term, kind, label string) {
	if ex.initLenient > 0 {
		if cond != TTrue {
			panic(unsupported("obligation inside package init"))
		}
		return
	}
	ex.Obligations++
	if cond == TTrue {
		ex.Discharged++
		ex.Trivial++
		return
	}
	if ex.specDepth > 0 {
		panic(specAbort{})
	}
	// known-finding regions: first check outside all declared regions
	goal := Not(cond)
	if len(ex.curKnown) > 0 {
		var outs []*Term
		for _, k := range ex.curKnown {
			outs = append(outs, Not(k.cond))
		}
		outside := AndB(append(outs, goal)...)
		r := ex.solver.Check(ex.pc, outside)
		switch r {
		case Sat:
			ex.recordFinding(kind, label, outside, "")
		case Unknown:
			ex.addInconclusive(fmt.Sprintf("obligation %s %q at %s: solver unknown", kind, label, ex.posStr(ex.curPos())))
		default:
			// inside some region?
			for _, k := range ex.curKnown {
				in := AndB(k.cond, goal)
				if ex.solver.Check(ex.pc, in) == Sat {
					ex.recordFinding(kind, label, in, k.label)
				}
			}
			if ex.solver.Check(ex.pc, goal) == Unsat {
				ex.Discharged++
			}
		}
	} else {
		r := ex.solver.Check(ex.pc, goal)
		switch r {
		case Unsat:
			ex.Discharged++
			return // cond is implied; no need to assume it
		case Sat:
			ex.recordFinding(kind, label, goal, "")
		case Unknown:
			ex.addInconclusive(fmt.Sprintf("obligation %s %q at %s: solver unknown", kind, label, ex.posStr(ex.curPos())))
		}
	}
	// continue only on the inputs that satisfy the obligation
	if cond == TFalse {
		panic(pathEnd{"violation"})
	}
	if ex.dpos < len(ex.decisions) {
		// replaying a prefix: feasibility was established when the prefix was first explored
		ex.assume(cond)
		return
	}
	if ex.solver.Check(ex.pc, cond) == Unsat {
		panic(pathEnd{"violation"})
	}
	ex.assume(cond)
}

func (ex *Exec) recordFinding(kind, label string, goal *Term, known string) {
	pos := ex.posStr(ex.curPos())
	key := kind + "|" + label + "|" + pos + "|" + known
	if f, ok := ex.Findings[key]; ok {
		f.Count++
		return
	}
	f := &Finding{Kind: kind, Label: label, Pos: pos, Stack: ex.stack(), Count: 1, Known: known}
	f.PC = append([]*Term{}, ex.pc...)
	f.Goal = goal
	m := ex.solver.GetModel(ex.pc, goal)
	f.Model = m
	if m != nil {
		f.Inputs = ex.modelInputs(m)
	}
	if ex.sched != nil && ex.sched.symbolic {
		si := &SchedInfo{Switches: append([]SchedSwitch{}, ex.sched.switches...)}
		for p := range ex.sched.points {
			si.Points = append(si.Points, p)
		}
		sort.Strings(si.Points)
		f.Sched = si
	}
	ex.Findings[key] = f
}

// modelInputs renders the named harness inputs under a model (for replay and samples).
func (ex *Exec) modelInputs(m *Model) map[string]string {
	out := map[string]string{}
	for name, tab := range m.UFs {
		for args, v := range tab {
			out["uf:"+name+"("+args+")"] = fmt.Sprintf("%d", v)
		}
	}
	for _, iv := range ex.inputs {
		if iv.t != nil {
			out[iv.name] = fmt.Sprintf("%d", m.Eval(iv.t))
			continue
		}
		n := m.Eval(iv.n)
		if n > 1<<20 {
			n = 1 << 20
		}
		arr := m.Arrays[iv.arr]
		// only materialise up to the highest index the model constrains
		var hi uint64
		for k := range arr {
			if k < n && k+1 > hi {
				hi = k + 1
			}
		}
		var sb strings.Builder
		for i := uint64(0); i < hi; i++ {
			fmt.Fprintf(&sb, "%02x", arr[i]&0xff)
		}
		out[iv.name] = fmt.Sprintf("len=%d hex=%s", n, sb.String())
	}
	return out
}

// ---------------------------------------------------------------- running code

func (ex *Exec) runMain(entry *ssa.Function) {
	g := &Goroutine{id: 0, name: "main"}
	ex.sched = newSched(ex, g)
	ex.callFunction(entry, nil, nil, nil)
	ex.sched.mainDone()
}

func (ex *Exec) fnKey(fn *ssa.Function) string {
	if o := fn.Origin(); o != nil {
		return o.String()
	}
	return fn.String()
}

func (ex *Exec) callValue(fv Value, args []Value, site ssa.Instruction) Value {
	f, ok := fv.(*FuncV)
	if !ok || f == nil {
		ex.oblige(TFalse, "panic:nil", "call of nil function")
		panic(pathEnd{"violation"})
	}
	if f.Native != nil {
		return f.Native(ex, args)
	}
	if f.Builtin != nil {
		return ex.callBuiltin(f.Builtin, args, site)
	}
	return ex.callFunction(f.Fn, args, f.Bindings, site)
}

func (ex *Exec) callFunction(fn *ssa.Function, args []Value, bindings []Value, site ssa.Instruction) Value {
	name := fn.String()
	if fn.Synthetic == "package initializer" && fn != ex.curInitFn {
		return nil // imported packages are initialised lazily, when one of their globals is touched
	}
	if h := ex.lookupStub(fn, name); h != nil {
		if ex.specDepth > 0 && !pureStub(name) {
			panic(specAbort{})
		}
		ex.StubsUsed[stubDisplayName(fn, name)]++
		return h(ex, fn, args)
	}
	if fn.Blocks == nil && fn.Pkg != nil {
		fn.Pkg.Build()
	}
	if fn.Blocks == nil {
		if o := fn.Origin(); o != nil && o.Pkg != nil {
			o.Pkg.Build()
		}
	}
	if fn.Blocks == nil {
		panic(unsupported("function without body: " + name))
	}
	if !ex.FuncsEntered[name] {
		ex.FuncsEntered[name] = true
	}
	fr := &Frame{fn: fn, env: make(map[ssa.Value]Value, 32), bindings: bindings, caller: ex.curFrame, pos: fn.Pos()}
	if fr.caller != nil {
		fr.g = fr.caller.g
	}
	for i, p := range fn.Params {
		fr.env[p] = args[i]
	}
	saved := ex.curFrame
	ex.curFrame = fr
	depth := 0
	for f := fr; f != nil; f = f.caller {
		depth++
	}
	if depth > 400 {
		panic(unsupported("call depth > 400"))
	}
	ret := ex.runFrame(fr)
	ex.curFrame = saved
	return ret
}

func (ex *Exec) runFrame(fr *Frame) Value {
	fn := fr.fn
	block := fn.Blocks[0]
	var prev *ssa.BasicBlock
blockLoop:
	for {
		var next *ssa.BasicBlock
		// phis first, simultaneously
		i := 0
		if prev == nil && block != fn.Blocks[0] {
			// entered through a merged branch: phis were already assigned
			for i < len(block.Instrs) {
				if _, ok := block.Instrs[i].(*ssa.Phi); !ok {
					break
				}
				i++
			}
		}
		if prev != nil {
			pi := -1
			for k, p := range block.Preds {
				if p == prev {
					pi = k
					break
				}
			}
			var vals []Value
			var phis []*ssa.Phi
			for ; i < len(block.Instrs); i++ {
				phi, ok := block.Instrs[i].(*ssa.Phi)
				if !ok {
					break
				}
				phis = append(phis, phi)
				vals = append(vals, ex.get(fr, phi.Edges[pi]))
			}
			for k, phi := range phis {
				fr.env[phi] = vals[k]
			}
		}
		for ; i < len(block.Instrs); i++ {
			instr := block.Instrs[i]
			if p := instr.Pos(); p.IsValid() {
				fr.pos = p
			}
			ex.steps++
			if ex.steps > ex.maxSteps {
				ex.addInconclusive(fmt.Sprintf("step budget %d exhausted", ex.maxSteps))
				panic(pathEnd{"steps"})
			}
			switch in := instr.(type) {
			case *ssa.Jump:
				next = block.Succs[0]
			case *ssa.If:
				c := ex.get(fr, in.Cond).(*Term)
				var taken bool
				if c.IsConst() {
					taken = c.Val != 0
				} else if j := ex.trySpeculate(fr, block, in, c); j != nil {
					// both sides were side-effect free and rejoin at j: merged into ite terms
					prev, block = nil, j
					continue blockLoop
				} else {
					if ex.specDepth > 0 {
						panic(specAbort{})
					}
					if fr.symIf == nil {
						fr.symIf = map[ssa.Instruction]int{}
					}
					fr.symIf[in]++
					if fr.symIf[in] > ex.unwind {
						// recorded as a finding: the driver replays it natively; only a run that
						// does not terminate there either is a violation, otherwise the bound was too small
						ex.Obligations++
						ex.recordFinding("unwind", fmt.Sprintf("unwinding bound %d exceeded", ex.unwind), TTrue, "")
						panic(pathEnd{"unwind"})
					}
					taken = ex.branch(c)
				}
				if taken {
					next = block.Succs[0]
				} else {
					next = block.Succs[1]
				}
			case *ssa.Return:
				switch len(in.Results) {
				case 0:
					return nil
				case 1:
					return ex.get(fr, in.Results[0])
				}
				tv := make(TupleV, len(in.Results))
				for k, r := range in.Results {
					tv[k] = ex.get(fr, r)
				}
				return tv
			case *ssa.Panic:
				v := ex.get(fr, in.X)
				ex.oblige(TFalse, "panic:explicit", ex.describe(v))
				panic(pathEnd{"violation"})
			default:
				if ex.initLenient > 0 {
					ex.stepLenient(fr, instr)
				} else {
					ex.step(fr, instr)
				}
			}
		}
		if next == nil {
			panic(unsupported("block without terminator"))
		}
		prev, block = block, next
	}
}

var condLog *os.File

func init() {
	if p := os.Getenv("VSYM_CONDLOG"); p != "" {
		condLog, _ = os.Create(p)
	}
}

type specAbort struct{}

// pureStub: stubs that neither mutate engine state nor create path-condition facts.
func pureStub(name string) bool {
	for _, p := range []string{"math/bits.", "bytes.Equal", "internal/bytealg.", "bytes.IndexByte", "strings.IndexByte", "strings.Contains", "strings.Index",
		"(*go.uber.org/zap", "go.uber.org/zap", "fmt.Sprint", "fmt.Errorf", "errors.Is", "errors.As", "runtime.KeepAlive", "(time.Time).Sub", modPath + "/conn.AddrPortMappedEqual"} {
		if strings.HasPrefix(name, p) {
			return true
		}
	}
	if i := strings.LastIndex(name, ".vf"); i >= 0 {
		switch name[i+1:] {
		case "vfAnd", "vfOr", "vfImp", "vfIte", "vfSymbolic", "vfFuncID", "vfUFBool", "vfUF64", "vfCase":
			return true
		}
	}
	return false
}

type specLeaf struct {
	cond *Term
	from *ssa.BasicBlock
	to   *ssa.BasicBlock
}

const specMaxBlocks = 12

// trySpeculate handles short-circuit style control flow without forking: starting from the
// symbolic branch `in` at the end of block, both sides are executed speculatively as long as they
// are free of side effects, forks and non-trivial obligations, and all paths rejoin at one block
// whose phis are then assigned ite terms.  Returns the join block, or nil when not applicable.
func (ex *Exec) trySpeculate(fr *Frame, block *ssa.BasicBlock, in *ssa.If, c *Term) (join *ssa.BasicBlock) {
	if ex.noSpec || ex.initLenient > 0 {
		return nil
	}
	// cheap structural pre-check: each side is either the join itself or a small single-pred block
	if len(block.Succs[0].Preds) > 1 && len(block.Succs[1].Preds) > 1 && block.Succs[0] != block.Succs[1] {
		return nil
	}
	key := ssa.Instruction(in)
	if ex.specFailed[key] {
		return nil
	}
	savedFrame, savedPos, savedSteps := ex.curFrame, fr.pos, ex.steps
	savedObl, savedDis, savedTriv := ex.Obligations, ex.Discharged, ex.Trivial
	base := objCount
	if ex.specDepth == 0 {
		ex.specObjBase = base
	}
	ex.specDepth++
	var leaves []specLeaf
	ok := func() (ok bool) {
		defer func() {
			if r := recover(); r != nil {
				if _, isAbort := r.(specAbort); isAbort {
					ok = false
					return
				}
				if _, isU := r.(unsupportedErr); isU {
					ok = false
					return
				}
				panic(r)
			}
		}()
		budget := specMaxBlocks
		var walk func(b, pred *ssa.BasicBlock, guard *Term)
		walk = func(b, pred *ssa.BasicBlock, guard *Term) {
			// b is a candidate intermediate block: must be entered only from pred
			if len(b.Preds) != 1 {
				leaves = append(leaves, specLeaf{guard, pred, b})
				return
			}
			budget--
			if budget < 0 {
				panic(specAbort{})
			}
			for _, instr := range b.Instrs {
				if p := instr.Pos(); p.IsValid() {
					fr.pos = p
				}
				ex.steps++
				switch x := instr.(type) {
				case *ssa.Phi:
					fr.env[x] = ex.get(fr, x.Edges[0])
				case *ssa.Jump:
					walk2 := b.Succs[0]
					if len(walk2.Preds) == 1 {
						walk(walk2, b, guard)
					} else {
						leaves = append(leaves, specLeaf{guard, b, walk2})
					}
					return
				case *ssa.If:
					cc := ex.get(fr, x.Cond).(*Term)
					switch cc {
					case TTrue:
						walk(b.Succs[0], b, guard)
					case TFalse:
						walk(b.Succs[1], b, guard)
					default:
						walk(b.Succs[0], b, AndB(guard, cc))
						walk(b.Succs[1], b, AndB(guard, Not(cc)))
					}
					return
				case *ssa.Return, *ssa.Panic, *ssa.Defer, *ssa.RunDefers, *ssa.Go, *ssa.Send, *ssa.Select, *ssa.MapUpdate:
					panic(specAbort{})
				default:
					ex.step(fr, instr)
				}
			}
		}
		walk(block.Succs[0], block, c)
		walk(block.Succs[1], block, Not(c))
		return true
	}()
	ex.specDepth--
	ex.curFrame, fr.pos = savedFrame, savedPos
	if !ok || len(leaves) < 2 {
		ex.steps = savedSteps
		ex.Obligations, ex.Discharged, ex.Trivial = savedObl, savedDis, savedTriv
		ex.specFailed[key] = true
		return nil
	}
	join = leaves[0].to
	for _, l := range leaves {
		if l.to != join {
			ex.specFailed[key] = true
			return nil
		}
	}
	// assign the phis of the join block
	type pv struct {
		phi *ssa.Phi
		v   Value
	}
	var assigns []pv
	ok = func() (ok bool) {
		defer func() {
			if r := recover(); r != nil {
				if _, isU := r.(unsupportedErr); isU {
					ok = false
					return
				}
				panic(r)
			}
		}()
		for _, instr := range join.Instrs {
			phi, isPhi := instr.(*ssa.Phi)
			if !isPhi {
				break
			}
			var acc Value
			for k := len(leaves) - 1; k >= 0; k-- {
				l := leaves[k]
				pi := -1
				for i, p := range join.Preds {
					if p == l.from {
						pi = i
						break
					}
				}
				if pi < 0 {
					return false
				}
				v := ex.get(fr, phi.Edges[pi])
				if acc == nil {
					acc = v
				} else {
					acc = iteValue(l.cond, v, acc)
				}
			}
			assigns = append(assigns, pv{phi, acc})
		}
		return true
	}()
	if !ok {
		ex.specFailed[key] = true
		return nil
	}
	for _, a := range assigns {
		fr.env[a.phi] = a.v
	}
	ex.Merged++
	return join
}

// stepLenient executes one instruction of a package initialiser; what the engine cannot model
// leaves an opaque value behind instead of aborting the whole initialiser.
func (ex *Exec) stepLenient(fr *Frame, instr ssa.Instruction) {
	saved := ex.curFrame
	defer func() {
		if r := recover(); r != nil {
			_, isU := r.(unsupportedErr)
			_, isRT := r.(runtime.Error)
			if !isU && !isRT {
				panic(r)
			}
			ex.curFrame = saved
			if v, ok := instr.(ssa.Value); ok {
				fr.env[v] = &Opaque{What: "init:" + fmt.Sprint(r)}
			}
		}
	}()
	ex.step(fr, instr)
}

func (ex *Exec) describe(v Value) string {
	switch x := v.(type) {
	case *IfaceV:
		if x.Typ == nil {
			return "nil"
		}
		return x.Typ.String() + ":" + ex.describe(x.Val)
	case *SliceV:
		if s, ok := ex.concreteString(x); ok {
			if len(s) > 80 {
				s = s[:80]
			}
			return s
		}
		return "<string>"
	case *Term:
		return x.String()
	case *Ptr:
		if !isNilPtr(x) && !x.Obj.IsBytes {
			return "&" + ex.describe(getAt(x.Obj.Val, x.Path))
		}
	case TupleV:
		var parts []string
		for _, e := range x {
			parts = append(parts, ex.describe(e))
			if len(parts) > 3 {
				break
			}
		}
		return "{" + strings.Join(parts, ",") + "}"
	case *Opaque:
		return "<" + x.What + ">"
	}
	return fmt.Sprintf("%T", v)
}

func (ex *Exec) get(fr *Frame, v ssa.Value) Value {
	switch x := v.(type) {
	case *ssa.Const:
		return ex.constValue(x)
	case *ssa.Function:
		return &FuncV{Fn: x}
	case *ssa.Global:
		return &Ptr{Obj: ex.global(x)}
	case *ssa.Builtin:
		return &FuncV{Builtin: x}
	case *ssa.FreeVar:
		for i, fv := range fr.fn.FreeVars {
			if fv == x {
				return fr.bindings[i]
			}
		}
		panic("freevar not found")
	}
	val, ok := fr.env[v]
	if !ok {
		panic(fmt.Sprintf("no value for %s (%T) in %s", v.Name(), v, fr.fn))
	}
	return val
}

func (ex *Exec) constValue(c *ssa.Const) Value {
	t := c.Type()
	if c.Value == nil {
		if _, isTP := t.(*types.TypeParam); isTP {
			panic(unsupported("const of type parameter"))
		}
		return ex.zero(t)
	}
	if w, _, ok := intWidth(t); ok {
		if c.Value.Kind() == constant.Int {
			if u, ok := constant.Uint64Val(c.Value); ok {
				return BV(w, u)
			}
			i, _ := constant.Int64Val(c.Value)
			return BV(w, uint64(i))
		}
		if c.Value.Kind() == constant.Float {
			f, _ := constant.Float64Val(c.Value)
			return BV(w, uint64(int64(f)))
		}
	}
	switch {
	case isBoolType(t):
		return Bool(constant.BoolVal(c.Value))
	case isStringType(t):
		return ex.stringValue(constant.StringVal(c.Value))
	case isFloatType(t):
		f, _ := constant.Float64Val(constant.ToFloat(c.Value))
		return &Opaque{What: fmt.Sprintf("float:%g", f)}
	}
	panic(unsupported(fmt.Sprintf("constant %s of type %s", c.Value, t)))
}

func (ex *Exec) stringValue(s string) *SliceV {
	if s == "" {
		return &SliceV{Off: BV(64, 0), Len: BV(64, 0), Cap: BV(64, 0), Str: true}
	}
	o, ok := ex.strConst[s]
	if !ok {
		o = ex.newBytes(constLayer(ex, []byte(s)), BV(64, uint64(len(s))), "str")
		o.RO = true
		ex.strConst[s] = o
	}
	n := BV(64, uint64(len(s)))
	return &SliceV{Obj: o, Off: BV(64, 0), Len: n, Cap: n, Str: true}
}

func (ex *Exec) bytesValue(b []byte) *SliceV {
	o := ex.newBytes(constLayer(ex, append([]byte{}, b...)), BV(64, uint64(len(b))), "bytes")
	n := BV(64, uint64(len(b)))
	return &SliceV{Obj: o, Off: BV(64, 0), Len: n, Cap: n}
}

func (ex *Exec) concreteString(s *SliceV) (string, bool) {
	n, ok := s.Len.ConstVal()
	if !ok {
		return "", false
	}
	if n == 0 {
		return "", true
	}
	if n > 1<<16 {
		return "", false
	}
	out := make([]byte, n)
	for i := uint64(0); i < n; i++ {
		b, ok := ex.readElem(s, BV(64, i)).(*Term)
		if !ok {
			return "", false
		}
		c, ok := b.ConstVal()
		if !ok {
			return "", false
		}
		out[i] = byte(c)
	}
	return string(out), true
}

// ---------------------------------------------------------------- globals and package init

func (ex *Exec) global(g *ssa.Global) *Object {
	if o, ok := ex.globals[g]; ok {
		return o
	}
	et := g.Type().(*types.Pointer).Elem()
	o := ex.newCells(et, ex.zero(et), g.String())
	ex.globals[g] = o
	if g.Pkg != nil {
		ex.ensureInit(g.Pkg)
	}
	return o
}

func (ex *Exec) ensureInit(pkg *ssa.Package) {
	if ex.initDone[pkg] {
		return
	}
	// Package initialisation happens before main in Go, independently of the path: when it is first
	// needed inside a speculatively executed branch arm it runs outside the speculation (its effects
	// stay whether or not the arm is kept) and, like every initialiser, without forking.
	savedSpec := ex.specDepth
	ex.specDepth = 0
	defer func() { ex.specDepth = savedSpec }()
	ex.initDone[pkg] = true
	if h, ok := pkgInitStubs[pkg.Pkg.Path()]; ok {
		h(ex, pkg)
		return
	}
	pkg.Build()
	initFn := pkg.Func("init")
	if initFn == nil || initFn.Blocks == nil {
		return
	}
	saved, savedInit := ex.curFrame, ex.curInitFn
	ex.curInitFn = initFn
	ex.initLenient++
	defer func() {
		ex.initLenient--
		ex.curFrame, ex.curInitFn = saved, savedInit
	}()
	ex.runInitLenient(initFn)
}

// runInitLenient executes a package initialiser, statement by statement; calls to other packages'
// init functions are skipped (they run lazily), unsupported initialisers leave an opaque value.
func (ex *Exec) runInitLenient(fn *ssa.Function) {
	defer func() {
		if r := recover(); r != nil {
			if u, ok := r.(unsupportedErr); ok {
				if ex.verbose {
					fmt.Fprintf(os.Stderr, "init %s: gave up: %s\n", fn.Pkg.Pkg.Path(), u.msg)
				}
				if strings.HasPrefix(fn.Pkg.Pkg.Path(), modPath) {
					// a package of the repository whose initialiser was cut short leaves globals
					// at their zero values: nothing decided on such a run can be trusted
					ex.addInconclusive("package initialiser of " + fn.Pkg.Pkg.Path() + " could not be executed completely: " + u.msg)
				}
				return
			}
			panic(r)
		}
	}()
	ex.callFunction(fn, nil, nil, nil)
}

// ---------------------------------------------------------------- instruction step

func (ex *Exec) step(fr *Frame, instr ssa.Instruction) {
	switch in := instr.(type) {
	case *ssa.DebugRef:
	case *ssa.Alloc:
		et := in.Type().(*types.Pointer).Elem()
		fr.env[in] = ex.alloc(et, in.Comment)
	case *ssa.BinOp:
		fr.env[in] = ex.binop(in.Op, ex.get(fr, in.X), ex.get(fr, in.Y), in.X.Type(), in.Y.Type())
	case *ssa.UnOp:
		fr.env[in] = ex.unop(fr, in)
	case *ssa.Call:
		fr.env[in] = ex.doCall(fr, &in.Call, in)
	case *ssa.ChangeType:
		fr.env[in] = ex.get(fr, in.X)
	case *ssa.Convert:
		fr.env[in] = ex.convert(ex.get(fr, in.X), in.X.Type(), in.Type())
	case *ssa.MultiConvert:
		fr.env[in] = ex.convert(ex.get(fr, in.X), in.X.Type(), in.Type())
	case *ssa.ChangeInterface:
		fr.env[in] = ex.get(fr, in.X)
	case *ssa.MakeInterface:
		fr.env[in] = &IfaceV{Typ: in.X.Type(), Val: ex.get(fr, in.X)}
	case *ssa.Extract:
		fr.env[in] = ex.get(fr, in.Tuple).(TupleV)[in.Index]
	case *ssa.Field:
		fr.env[in] = copyValue(ex.get(fr, in.X).(TupleV)[in.Field])
	case *ssa.FieldAddr:
		p := ex.get(fr, in.X).(*Ptr)
		ex.nilCheck(p)
		if p.View != nil {
			panic(unsupported("field address through an unsafe pointer view"))
		}
		fr.env[in] = &Ptr{Obj: p.Obj, Path: pathAppend(p.Path, PathElem{I: in.Field})}
	case *ssa.Index:
		fr.env[in] = ex.index(ex.get(fr, in.X), ex.get(fr, in.Index).(*Term), in.X.Type(), in.Index.Type())
	case *ssa.IndexAddr:
		fr.env[in] = ex.indexAddr(ex.get(fr, in.X), ex.get(fr, in.Index).(*Term), in.X.Type(), in.Index.Type())
	case *ssa.Lookup:
		fr.env[in] = ex.lookup(fr, in)
	case *ssa.MakeClosure:
		b := make([]Value, len(in.Bindings))
		for i, x := range in.Bindings {
			b[i] = ex.get(fr, x)
		}
		fr.env[in] = &FuncV{Fn: in.Fn.(*ssa.Function), Bindings: b}
	case *ssa.MakeMap:
		mt := in.Type().Underlying().(*types.Map)
		objCount++
		fr.env[in] = &MapV{ID: objCount, KeyT: mt.Key(), ValT: mt.Elem()}
	case *ssa.MakeSlice:
		fr.env[in] = ex.makeSlice(in.Type(), ex.get(fr, in.Len).(*Term), ex.get(fr, in.Cap).(*Term), in.Len.Type())
	case *ssa.MakeChan:
		sz := ex.get(fr, in.Size).(*Term)
		c, ok := sz.ConstVal()
		if !ok {
			panic(unsupported("symbolic channel size"))
		}
		fr.env[in] = ex.newChan(int(c), in.Type().Underlying().(*types.Chan).Elem())
	case *ssa.MapUpdate:
		ex.mapUpdate(ex.get(fr, in.Map), ex.get(fr, in.Key), ex.get(fr, in.Value))
	case *ssa.Range:
		fr.env[in] = ex.rangeStart(ex.get(fr, in.X), in.X.Type())
	case *ssa.Next:
		fr.env[in] = ex.rangeNext(ex.get(fr, in.Iter).(*rangeIter), in)
	case *ssa.Slice:
		fr.env[in] = ex.sliceOp(fr, in)
	case *ssa.SliceToArrayPointer:
		fr.env[in] = ex.sliceToArrayPtr(ex.get(fr, in.X).(*SliceV), in.Type().Underlying().(*types.Pointer).Elem().Underlying().(*types.Array))
	case *ssa.Store:
		ex.store(ex.get(fr, in.Addr).(*Ptr), ex.get(fr, in.Val), in.Val.Type())
	case *ssa.TypeAssert:
		fr.env[in] = ex.typeAssert(in, ex.get(fr, in.X))
	case *ssa.Defer:
		call := in.Call
		fn, args := ex.prepareCall(fr, &call)
		fr.defers = append(fr.defers, func() { ex.invokePrepared(fn, args, in) })
	case *ssa.RunDefers:
		for len(fr.defers) > 0 {
			d := fr.defers[len(fr.defers)-1]
			fr.defers = fr.defers[:len(fr.defers)-1]
			d()
		}
	case *ssa.Go:
		call := in.Call
		fn, args := ex.prepareCall(fr, &call)
		ex.sched.spawn(fn, args, in)
	case *ssa.Send:
		ex.chanSend(ex.get(fr, in.Chan), ex.get(fr, in.X))
	case *ssa.Select:
		fr.env[in] = ex.selectOp(fr, in)
	default:
		panic(unsupported(fmt.Sprintf("instruction %T", instr)))
	}
}

func (ex *Exec) nilCheck(p *Ptr) {
	if isNilPtr(p) {
		ex.oblige(TFalse, "panic:nil", "nil pointer dereference")
		panic(pathEnd{"violation"})
	}
}

func (ex *Exec) alloc(et types.Type, name string) *Ptr {
	if at, ok := et.Underlying().(*types.Array); ok && isByteType(at.Elem()) && at.Len() > 0 {
		o := ex.newBytes(zeroLayer(), BV(64, uint64(at.Len())), name)
		o.Typ = et
		return &Ptr{Obj: o, Off: BV(64, 0)}
	}
	return &Ptr{Obj: ex.newCells(et, ex.zero(et), name)}
}

// ---------------------------------------------------------------- calls

type preparedFn struct {
	fv *FuncV
}

func (ex *Exec) prepareCall(fr *Frame, c *ssa.CallCommon) (*FuncV, []Value) {
	var args []Value
	var fv *FuncV
	if c.IsInvoke() {
		recv := ex.get(fr, c.Value)
		iv, ok := recv.(*IfaceV)
		if !ok {
			panic(unsupported(fmt.Sprintf("invoke on %T", recv)))
		}
		if iv.Typ == nil {
			ex.oblige(TFalse, "panic:nil", "method call on nil interface: "+c.Method.Name())
			panic(pathEnd{"violation"})
		}
		fv = ex.methodOf(iv.Typ, c.Method)
		args = append(args, iv.Val)
	} else {
		v := ex.get(fr, c.Value)
		f, ok := v.(*FuncV)
		if !ok || f == nil {
			ex.oblige(TFalse, "panic:nil", "call of nil function value")
			panic(pathEnd{"violation"})
		}
		fv = f
	}
	for _, a := range c.Args {
		args = append(args, ex.get(fr, a))
	}
	return fv, args
}

func (ex *Exec) methodOf(t types.Type, m *types.Func) *FuncV {
	if nat, ok := nativeMethod(t, m.Name()); ok {
		return nat
	}
	fn := ex.prog.LookupMethod(t, m.Pkg(), m.Name())
	if fn == nil {
		panic(unsupported(fmt.Sprintf("no method %s on %s", m.Name(), t)))
	}
	return &FuncV{Fn: fn}
}

func (ex *Exec) invokePrepared(fv *FuncV, args []Value, site ssa.Instruction) Value {
	return ex.callValue(fv, args, site)
}

func (ex *Exec) doCall(fr *Frame, c *ssa.CallCommon, site ssa.Instruction) Value {
	fv, args := ex.prepareCall(fr, c)
	return ex.callValue(fv, args, site)
}

// ---------------------------------------------------------------- findings output helpers

func (ex *Exec) sortedFindings() []*Finding {
	var keys []string
	for k := range ex.Findings {
		keys = append(keys, k)
	}
	sort.Strings(keys)
	var out []*Finding
	for _, k := range keys {
		out = append(out, ex.Findings[k])
	}
	return out
}
